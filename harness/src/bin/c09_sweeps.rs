//! C09 — sweep and second-level HTLC signatures only move funds back to the node.
//!
//! Part A: `Channel::sign_delayed_sweep`, `sign_counterparty_htlc_sweep`, `sign_justice_sweep`
//! under generated sweeps (1-3 inputs, 0-3 outputs, destination classes, versions, locktimes,
//! sequences, both HTLC script kinds + garbage, anchors on/off, several heights, changing
//! allowlists).  Part B: `Channel::sign_holder_htlc_tx` / `sign_counterparty_htlc_tx` on the
//! canonical BOLT-3 HTLC-success/timeout transaction and mutations of it.
//!
//! Both parts are ALSO sent through the protocol handler (vls-protocol-signer `handler.rs`) as wire messages,
//! for a share of the cases: `SignAny{DelayedPayment,RemoteHtlc,Penalty}ToUs` (root handler: input index, peer
//! id, dbid), the per-channel `Sign{DelayedPayment,RemoteHtlc,Penalty}ToUs` (input 0), `SignRemoteHtlcTx`,
//! `SignLocalHtlcTx` / `SignAnyLocalHtlcTx`, protocol versions 4-6.  The handler's answer is judged by the very
//! same reference judgement as the direct call (counters `hA.*` / `hB.*`, `handler.<Message>.*`; witnesses
//! carry `entry_point: "protocol handler: <Message>"` and the wire details).
//!
//! The oracle is one-directional (Ok => allowed) and is written from the property text, BOLT-3 and
//! docs/policy-controls.md; it never calls the validator.  Keys are derived here from the
//! basepoints with the BOLT-3 formulas (SHA256 tweaks), scripts are built here opcode by opcode.

use lightning_signer::bitcoin;
use lightning_signer::lightning;

use bitcoin::absolute::LockTime;
use bitcoin::bip32::{ChildNumber, DerivationPath, Fingerprint, Xpriv, Xpub};
use bitcoin::consensus::encode::serialize_hex;
use bitcoin::hashes::{sha256, Hash, HashEngine};
use bitcoin::key::CompressedPublicKey;
use bitcoin::opcodes::all as opc;
use bitcoin::psbt::Psbt;
use bitcoin::script::{Builder, Instruction};
use bitcoin::secp256k1::ecdsa::Signature;
use bitcoin::secp256k1::{All, Message, PublicKey, Scalar, Secp256k1, SecretKey, XOnlyPublicKey};
use bitcoin::sighash::{EcdsaSighashType, SighashCache};
use bitcoin::transaction::Version;
use bitcoin::{
    Address, Amount, BlockHash, Network, OutPoint, Script, ScriptBuf, Sequence, Transaction, TxIn, TxOut,
    Txid, Witness,
};
use lightning::ln::chan_utils::{
    build_htlc_transaction, get_htlc_redeemscript, ChannelPublicKeys, HTLCOutputInCommitment,
    TxCreationKeys,
};
use lightning::ln::channel_keys::{
    DelayedPaymentBasepoint, DelayedPaymentKey, HtlcBasepoint, HtlcKey, RevocationBasepoint,
    RevocationKey,
};
use lightning::types::payment::PaymentHash;
use lightning_signer::channel::{ChannelBase, ChannelId, ChannelSetup, CommitmentType};
use lightning_signer::node::Node;
use lightning_signer::policy::simple_validator::make_default_simple_policy;
use lightning_signer::util::test_utils::make_testnet_header;
use serde_json::{json, Value};
use std::sync::Arc;
use std::time::Instant;
use vls_protocol::model::{Bip32KeyVersion, DisclosedSecret, PubKey};
use vls_protocol::msgs::{self, Message as WireMessage};
use vls_protocol::psbt::PsbtWrapper;
use vls_protocol::serde_bolt::{Octets, WithSize};
use vls_protocol_signer::approver::PositiveApprover;
use vls_protocol_signer::handler::{Error as HandlerError, Handler, InitHandler, RootHandler};
use vls_verif::report::{self, finish, run_sharded, FinishSpec};
use vls_verif::rng::fnv_str;
use vls_verif::world::{ValidatorKind, World, WorldCfg};
use vls_verif::{oracle, Cli, Report, Rng};

/// the documented chain lag tolerated for a sweep locktime ("not too far in the future"),
/// plus one block of deliberate slack (DESIGN.md section 4)
const MAX_LAG: u64 = 2;
const LOCKTIME_SLACK: u64 = 1;
const LOCKTIME_THRESHOLD: u32 = 500_000_000;

// ---------------------------------------------------------------------------------------------
// independent BOLT-3 pieces
// ---------------------------------------------------------------------------------------------

fn sha2(a: &[u8], b: &[u8]) -> [u8; 32] {
    let mut e = sha256::Hash::engine();
    e.input(a);
    e.input(b);
    sha256::Hash::from_engine(e).to_byte_array()
}

/// BOLT-3: pubkey = basepoint + SHA256(per_commitment_point || basepoint) * G
fn derive_pub(secp: &Secp256k1<All>, pcp: &PublicKey, base: &PublicKey) -> Option<PublicKey> {
    let t = sha2(&pcp.serialize(), &base.serialize());
    base.add_exp_tweak(secp, &Scalar::from_be_bytes(t).ok()?).ok()
}

/// BOLT-3: revocationpubkey = revocation_basepoint * SHA256(revocation_basepoint || per_commitment_point)
///                          + per_commitment_point * SHA256(per_commitment_point || revocation_basepoint)
fn derive_rev(secp: &Secp256k1<All>, pcp: &PublicKey, rb: &PublicKey) -> Option<PublicKey> {
    let a = sha2(&rb.serialize(), &pcp.serialize());
    let b = sha2(&pcp.serialize(), &rb.serialize());
    let p1 = rb.mul_tweak(secp, &Scalar::from_be_bytes(a).ok()?).ok()?;
    let p2 = pcp.mul_tweak(secp, &Scalar::from_be_bytes(b).ok()?).ok()?;
    p1.combine(&p2).ok()
}

/// BOLT-3 to_local / HTLC-tx output script
fn revokeable_script(rev: &PublicKey, delay: u16, delayed: &PublicKey) -> ScriptBuf {
    Builder::new()
        .push_opcode(opc::OP_IF)
        .push_slice(rev.serialize())
        .push_opcode(opc::OP_ELSE)
        .push_int(delay as i64)
        .push_opcode(opc::OP_CSV)
        .push_opcode(opc::OP_DROP)
        .push_slice(delayed.serialize())
        .push_opcode(opc::OP_ENDIF)
        .push_opcode(opc::OP_CHECKSIG)
        .into_script()
}

#[derive(Clone, Debug, PartialEq)]
enum Tok {
    Op(u8),
    Push(Vec<u8>),
}

fn tokens(script: &Script) -> Option<Vec<Tok>> {
    let mut out = vec![];
    for ins in script.instructions() {
        match ins {
            Ok(Instruction::Op(o)) => out.push(Tok::Op(o.to_u8())),
            Ok(Instruction::PushBytes(p)) => out.push(Tok::Push(p.as_bytes().to_vec())),
            Err(_) => return None,
        }
    }
    Some(out)
}

fn tok_num(t: &Tok) -> Option<i64> {
    match t {
        Tok::Op(o) if (0x51..=0x60).contains(o) => Some((*o - 0x50) as i64),
        Tok::Op(0x4f) => Some(-1),
        Tok::Op(_) => None,
        Tok::Push(b) => {
            if b.len() > 8 {
                return None;
            }
            if b.is_empty() {
                return Some(0);
            }
            let mut v: i64 = 0;
            for (i, x) in b.iter().enumerate() {
                let x = if i == b.len() - 1 { x & 0x7f } else { *x };
                v |= (x as i64) << (8 * i);
            }
            if b[b.len() - 1] & 0x80 != 0 {
                v = -v;
            }
            Some(v)
        }
    }
}

#[derive(Clone, Copy)]
enum T {
    O(u8),
    D,
    N32,
    NExp,
}

/// Is `script` a BOLT-3 offered / received HTLC output script (for the given anchors setting)?
/// Returns (offered, expiry for received).  Data pushes are wildcards of any length.
fn classify_htlc_script(script: &Script, anchors: bool) -> Option<(bool, Option<i64>)> {
    let toks = tokens(script)?;
    let o = |x: bitcoin::opcodes::Opcode| T::O(x.to_u8());
    let head = vec![
        o(opc::OP_DUP), o(opc::OP_HASH160), T::D, o(opc::OP_EQUAL), o(opc::OP_IF), o(opc::OP_CHECKSIG),
        o(opc::OP_ELSE), T::D, o(opc::OP_SWAP), o(opc::OP_SIZE), T::N32, o(opc::OP_EQUAL),
    ];
    let offered_mid = vec![
        o(opc::OP_NOTIF), o(opc::OP_DROP), o(opc::OP_PUSHNUM_2), o(opc::OP_SWAP), T::D, o(opc::OP_PUSHNUM_2),
        o(opc::OP_CHECKMULTISIG), o(opc::OP_ELSE), o(opc::OP_HASH160), T::D, o(opc::OP_EQUALVERIFY),
        o(opc::OP_CHECKSIG), o(opc::OP_ENDIF),
    ];
    let received_mid = vec![
        o(opc::OP_IF), o(opc::OP_HASH160), T::D, o(opc::OP_EQUALVERIFY), o(opc::OP_PUSHNUM_2), o(opc::OP_SWAP),
        T::D, o(opc::OP_PUSHNUM_2), o(opc::OP_CHECKMULTISIG), o(opc::OP_ELSE), o(opc::OP_DROP), T::NExp,
        o(opc::OP_CLTV), o(opc::OP_DROP), o(opc::OP_CHECKSIG), o(opc::OP_ENDIF),
    ];
    let mut tail = vec![];
    if anchors {
        tail.extend([o(opc::OP_PUSHNUM_1), o(opc::OP_CSV), o(opc::OP_DROP)]);
    }
    tail.push(o(opc::OP_ENDIF));
    for (offered, mid) in [(true, &offered_mid), (false, &received_mid)] {
        let tpl: Vec<T> = head.iter().chain(mid.iter()).chain(tail.iter()).cloned().collect();
        if tpl.len() != toks.len() {
            continue;
        }
        let mut expiry = None;
        let mut ok = true;
        for (t, k) in tpl.iter().zip(toks.iter()) {
            let m = match (t, k) {
                (T::O(a), Tok::Op(b)) => a == b,
                (T::O(_), _) => false,
                (T::D, Tok::Push(_)) => true,
                (T::D, _) => false,
                (T::N32, k) => tok_num(k) == Some(32),
                (T::NExp, k) => match tok_num(k) {
                    Some(v) => {
                        expiry = Some(v);
                        true
                    }
                    None => false,
                },
            };
            if !m {
                ok = false;
                break;
            }
        }
        if ok {
            return Some((offered, expiry));
        }
    }
    None
}

fn p2wsh_sighash(
    tx: &Transaction,
    input: usize,
    script: &Script,
    amount: u64,
    ty: EcdsaSighashType,
) -> Option<Message> {
    let h = SighashCache::new(tx).p2wsh_signature_hash(input, script, Amount::from_sat(amount), ty).ok()?;
    Some(Message::from_digest(h.to_byte_array()))
}

fn path_of(v: &[u32]) -> DerivationPath {
    v.iter().map(|i| ChildNumber::from_normal_idx(*i & 0x7fff_ffff).unwrap()).collect::<Vec<_>>().into()
}

fn rand_pubkey(rng: &mut Rng, secp: &Secp256k1<All>) -> PublicKey {
    loop {
        if let Ok(sk) = SecretKey::from_slice(&rng.bytes::<32>()) {
            return PublicKey::from_secret_key(secp, &sk);
        }
    }
}

fn rand_secret(rng: &mut Rng) -> SecretKey {
    loop {
        if let Ok(sk) = SecretKey::from_slice(&rng.bytes::<32>()) {
            return sk;
        }
    }
}

/// script kinds: 0 p2wpkh, 1 p2sh-p2wpkh, 2 p2tr, 3 p2pkh
fn key_script(secp: &Secp256k1<All>, pk: &PublicKey, kind: u64, net: Network) -> ScriptBuf {
    let c = CompressedPublicKey(*pk);
    match kind {
        0 => Address::p2wpkh(&c, net).script_pubkey(),
        1 => Address::p2shwpkh(&c, net).script_pubkey(),
        2 => Address::p2tr(secp, XOnlyPublicKey::from(*pk), None, net).script_pubkey(),
        _ => Address::p2pkh(c, net).script_pubkey(),
    }
}

fn key_address(secp: &Secp256k1<All>, pk: &PublicKey, kind: u64, net: Network) -> Address {
    let c = CompressedPublicKey(*pk);
    match kind {
        0 => Address::p2wpkh(&c, net),
        1 => Address::p2shwpkh(&c, net),
        2 => Address::p2tr(secp, XOnlyPublicKey::from(*pk), None, net),
        _ => Address::p2pkh(c, net),
    }
}

fn reason_tag(msg: &str) -> String {
    // drop digits / hex so that the set of refusal reasons stays small
    let mut s: String = msg.chars().filter(|c| !c.is_ascii_digit()).collect();
    if let Some(i) = s.find("Script(") {
        s.truncate(i);
    }
    s.chars().take(100).collect()
}

// ---------------------------------------------------------------------------------------------
// the environment: a world, its allowlist model, its channels, the harness-held chain height
// ---------------------------------------------------------------------------------------------

struct ChanCtx {
    id: ChannelId,
    /// what the node was given in `new_channel`; the protocol handler finds the channel by these
    peer: [u8; 33],
    dbid: u64,
    setup: ChannelSetup,
    holder: ChannelPublicKeys,
    next_holder: u64,
    /// independently derived commitment seed (None if the self-check against the signer failed)
    commit_seed: Option<[u8; 32]>,
}

impl ChanCtx {
    fn anchors(&self) -> bool {
        self.setup.commitment_type == CommitmentType::AnchorsZeroFeeHtlc
            || self.setup.commitment_type == CommitmentType::Anchors
    }
    fn zero_fee(&self) -> bool {
        self.setup.commitment_type == CommitmentType::AnchorsZeroFeeHtlc
    }
    fn summary(&self) -> Value {
        let cp = &self.setup.counterparty_points;
        json!({
            "channel_id0": hex::encode(self.id.as_slice()),
            "commitment_type": format!("{:?}", self.setup.commitment_type),
            "is_outbound": self.setup.is_outbound,
            "channel_value_sat": self.setup.channel_value_sat,
            "funding_outpoint": self.setup.funding_outpoint.to_string(),
            "holder_selected_contest_delay": self.setup.holder_selected_contest_delay,
            "counterparty_selected_contest_delay": self.setup.counterparty_selected_contest_delay,
            "next_holder_commit_num": self.next_holder,
            "counterparty_points": {
                "funding": cp.funding_pubkey.to_string(),
                "revocation_basepoint": cp.revocation_basepoint.0.to_string(),
                "payment_point": cp.payment_point.to_string(),
                "delayed_payment_basepoint": cp.delayed_payment_basepoint.0.to_string(),
                "htlc_basepoint": cp.htlc_basepoint.0.to_string(),
            },
        })
    }
}

struct Env {
    world: World,
    secp: Secp256k1<All>,
    net: Network,
    seed_hex: String,
    /// harness-held chain height: tracker height after node creation + blocks added by the harness
    height: u32,
    blocks_added: u32,
    acct: Xpub,
    allow_scripts: Vec<(String, ScriptBuf)>,
    removed_scripts: Vec<ScriptBuf>,
    allow_xpubs: Vec<Xpub>,
    foreign_xpubs: Vec<Xpub>,
    chans: Vec<ChanCtx>,
    min_feerate: u64,
    max_feerate: u64,
    next_dbid: u64,
    seed: [u8; 32],
    /// protocol handlers (one root handler per protocol version) on the CURRENT node; rebuilt after a restart
    roots: Vec<(u32, RootHandler)>,
}

fn add_blocks(node: &Node, n: u32) -> Result<u32, String> {
    let mut t = node.get_tracker();
    for _ in 0..n {
        let (h, p) = make_testnet_header(t.tip(), t.height());
        t.add_block(h, p).map_err(|e| format!("{:?}", e))?;
    }
    // as the protocol handler does after every block: the restarts below come back to this height
    node.get_persister().update_tracker(&node.get_id(), &t).map_err(|e| format!("persist tracker: {:?}", e))?;
    Ok(t.height())
}

impl Env {
    fn env_json(&self) -> Value {
        json!({
            "network": format!("{:?}", self.net),
            "node_seed": self.seed_hex,
            "height": self.height,
            "blocks_added_by_harness": self.blocks_added,
            "policy_min_feerate_per_kw": self.min_feerate,
            "policy_max_feerate_per_kw": self.max_feerate,
            "allowlist_scripts": self.allow_scripts.iter().map(|(a, _)| a.clone()).collect::<Vec<_>>(),
            "allowlist_xpubs": self.allow_xpubs.iter().map(|x| x.to_string()).collect::<Vec<_>>(),
        })
    }

    fn new(rng: &mut Rng, r: &mut Report) -> Result<Env, String> {
        let secp = Secp256k1::new();
        let seed = rng.bytes::<32>();
        let mut cfg = WorldCfg::regtest(seed);
        if rng.chance(1, 4) {
            cfg.network = Network::Testnet;
            cfg.policy = make_default_simple_policy(Network::Testnet);
        }
        if rng.chance(1, 5) {
            // the on-chain validator delegates the sweep / HTLC-tx rules to the simple validator
            cfg.validator = ValidatorKind::Onchain;
        }
        r.set_add("world.validator", &format!("{:?}", cfg.validator));
        let min_feerate = *rng.pick(&[253u32, 253, 500, 1000]);
        let max_feerate = *rng.pick(&[333_333u32, 333_333, 25_000, 100_000]);
        cfg.policy.min_feerate_per_kw = min_feerate;
        cfg.policy.max_feerate_per_kw = max_feerate;
        // A third of the worlds run with a policy filter that demotes rules of OTHER areas to warnings
        // (commitments, mutual close, routing, channel setup, on-chain funding, and the catch-all tag the HTLC
        // transaction binding check reports under, which is a hard error whatever the filter says).  None of the
        // sweep / second-level HTLC rules (policy-sweep-*, policy-htlc-fee-range, policy-htlc-locktime) is
        // demoted, so the clauses of the property stay what they are.
        if rng.chance(1, 3) {
            use lightning_signer::policy::filter::{FilterResult, FilterRule, PolicyFilter};
            let candidates: [(&str, bool); 9] = [
                ("policy-commitment-", true),
                ("policy-commitment-fee-range", false),
                ("policy-mutual-", true),
                ("policy-routing-", true),
                ("policy-channel-", true),
                ("policy-onchain-fee-range", false),
                ("policy-funding-max", false),
                ("policy-htlc-other", false),
                ("policy-other", false),
            ];
            let mut rules = vec![];
            for _ in 0..1 + rng.usize(3) {
                let (tag, is_prefix) = *rng.pick(&candidates);
                rules.push(FilterRule { tag: tag.to_string(), is_prefix, action: FilterResult::Warn });
                r.set_add("world.filter_rules", tag);
            }
            cfg.policy.filter = PolicyFilter { rules };
            r.count("world.with_policy_filter_on_other_areas");
        }
        let net = cfg.network;
        let world = World::new(cfg);
        let node = world.node.clone();
        let base = node.get_tracker().height();
        let n0 = *rng.pick(&[0u32, 1, 3, 20, 120]);
        let h = add_blocks(&node, n0)?;
        if h != base + n0 {
            return Err(format!("tracker height {} after adding {} blocks on {}", h, n0, base));
        }
        r.set_add("world.network", &format!("{:?}", net));
        let acct = node.get_account_extended_pubkey();

        // allowlist: foreign scripts and foreign xpubs
        let mut allow_scripts = vec![];
        let mut allow_xpubs = vec![];
        let mut foreign_xpubs = vec![];
        let mut adds: Vec<String> = vec![];
        for _ in 0..rng.range(0, 4) {
            let pk = rand_pubkey(rng, &secp);
            let a = key_address(&secp, &pk, rng.below(4), net);
            adds.push(a.to_string());
            allow_scripts.push((a.to_string(), a.script_pubkey()));
        }
        for i in 0..3 {
            let xp = Xpriv::new_master(net, &rng.bytes::<32>()).map_err(|e| format!("{:?}", e))?;
            let xpub = Xpub::from_priv(&secp, &xp);
            if i < 2 && rng.chance(2, 3) {
                adds.push(format!("xpub:{}", xpub));
                allow_xpubs.push(xpub);
            } else {
                foreign_xpubs.push(xpub);
            }
        }
        node.add_allowlist(&adds).map_err(|e| format!("add_allowlist: {:?}", e))?;

        let mut env = Env {
            world,
            secp,
            net,
            seed_hex: hex::encode(seed),
            height: h,
            blocks_added: n0,
            acct,
            allow_scripts,
            removed_scripts: vec![],
            allow_xpubs,
            foreign_xpubs,
            chans: vec![],
            min_feerate: min_feerate as u64,
            max_feerate: max_feerate as u64,
            next_dbid: 1,
            seed,
            roots: vec![],
        };
        // one channel of each commitment type (order random), generated delays
        let mut types = vec![CommitmentType::StaticRemoteKey, CommitmentType::AnchorsZeroFeeHtlc];
        rng.shuffle(&mut types);
        for ct in types.into_iter() {
            let c = env.new_channel(rng, r, ct)?;
            env.chans.push(c);
        }
        Ok(env)
    }

    fn replace_channel(&mut self, rng: &mut Rng, r: &mut Report, ci: usize) -> Result<(), String> {
        let ct = self.chans[ci].setup.commitment_type;
        let c = self.new_channel(rng, r, ct)?;
        self.chans[ci] = c;
        Ok(())
    }

    fn new_channel(
        &mut self,
        rng: &mut Rng,
        r: &mut Report,
        ct: CommitmentType,
    ) -> Result<ChanCtx, String> {
        let dbid = self.next_dbid;
        self.next_dbid += 1;
        let seed = &self.seed.clone();
        let node = self.world.node.clone();
        let secp = &self.secp;
        let peer = rand_pubkey(rng, secp).serialize();
        let (id, _) = node.new_channel(dbid, &peer, &node).map_err(|e| format!("new_channel: {:?}", e))?;
        let delays: [u16; 12] = [4, 5, 6, 15, 16, 17, 127, 128, 144, 255, 256, 2016];
        let hd = *rng.pick(&delays);
        let mut cd = *rng.pick(&delays);
        if cd == hd && rng.chance(3, 4) {
            cd = *rng.pick(&delays);
        }
        let setup = ChannelSetup {
            is_outbound: rng.bool(),
            channel_value_sat: rng.range(100_000, 1_000_000_000),
            push_value_msat: 0,
            funding_outpoint: OutPoint { txid: Txid::from_byte_array(rng.bytes::<32>()), vout: rng.below(3) as u32 },
            holder_selected_contest_delay: hd,
            // a third of the channels fix an upfront shutdown script at setup: an allowlisted, non-wallet
            // destination (setup refuses anything else).  It is a sweep destination like any other: allowed while
            // it is on the allowlist, not allowed once the operator has removed it
            holder_shutdown_script: if !self.allow_scripts.is_empty() && rng.chance(1, 3) {
                r.count("world.channel_with_upfront_shutdown_script");
                Some(rng.pick(&self.allow_scripts).1.clone())
            } else {
                None
            },
            counterparty_points: ChannelPublicKeys {
                funding_pubkey: rand_pubkey(rng, secp),
                revocation_basepoint: RevocationBasepoint(rand_pubkey(rng, secp)),
                payment_point: rand_pubkey(rng, secp),
                delayed_payment_basepoint: DelayedPaymentBasepoint(rand_pubkey(rng, secp)),
                htlc_basepoint: HtlcBasepoint(rand_pubkey(rng, secp)),
            },
            counterparty_selected_contest_delay: cd,
            counterparty_shutdown_script: None,
            commitment_type: ct,
        };
        node.setup_channel(id.clone(), None, setup.clone(), &DerivationPath::master())
            .map_err(|e| format!("setup_channel: {:?}", e))?;
        let next_holder = *rng.pick(&[0u64, 0, 1, 7, 1000]);
        let holder = node
            .with_channel(&id, |c| {
                c.set_next_holder_commit_num_for_testing(next_holder);
                Ok(c.get_channel_basepoints())
            })
            .map_err(|e| format!("basepoints: {:?}", e))?;
        // independent native derivation of the channel secrets; used for the per-commitment point
        let mat = oracle::native_channel_key_material(seed, id.as_slice());
        let pk = |i: usize| {
            SecretKey::from_slice(&mat[i * 32..(i + 1) * 32]).ok().map(|s| PublicKey::from_secret_key(secp, &s))
        };
        let agree = pk(1) == Some(holder.revocation_basepoint.0)
            && pk(2) == Some(holder.htlc_basepoint.0)
            && pk(4) == Some(holder.delayed_payment_basepoint.0);
        let commit_seed = if agree {
            r.count("selfcheck.native_basepoints_agree");
            let mut s = [0u8; 32];
            s.copy_from_slice(&mat[160..192]);
            Some(s)
        } else {
            r.count("selfcheck.native_basepoints_differ");
            r.note("independent native key derivation differs from the signer's basepoints; falling back to the signer's per-commitment points (C18 judges this, not C09)");
            None
        };
        Ok(ChanCtx { id, peer, dbid, setup, holder, next_holder, commit_seed })
    }

    /// the per-commitment point of holder commitment n
    fn holder_pcp(&self, c: &ChanCtx, n: u64, r: &mut Report) -> Option<PublicKey> {
        if let Some(seed) = &c.commit_seed {
            if n <= oracle::INITIAL_COMMITMENT_NUMBER {
                let s = oracle::commitment_secret(seed, n);
                if let Ok(sk) = SecretKey::from_slice(&s) {
                    r.count("oracle.pcp_from_independent_seed");
                    return Some(PublicKey::from_secret_key(&self.secp, &sk));
                }
            }
            return None;
        }
        self.world.node.with_channel_base(&c.id, |b| b.get_per_commitment_point(n)).ok()
    }

    fn maybe_churn(&mut self, rng: &mut Rng, r: &mut Report) {
        // chain progress
        if rng.chance(1, 25) && self.blocks_added < 200 {
            let n = rng.range(1, 3) as u32;
            let node = self.world.node.clone();
            match report::catch(|| add_blocks(&node, n)).unwrap_or_else(|p| Err(format!("panic: {}", p))) {
                Ok(h) => {
                    self.height += n;
                    self.blocks_added += n;
                    r.count_n("world.blocks_added", n as u64);
                    if h != self.height {
                        r.inconclusive(&format!("tracker height {} != harness height {}", h, self.height));
                    }
                }
                Err(e) => r.inconclusive(&format!("add_block failed: {}", e)),
            }
        }
        // allowlist churn
        if rng.chance(1, 40) {
            let node = self.world.node.clone();
            match rng.below(3) {
                0 if !self.allow_scripts.is_empty() => {
                    let mut i = rng.usize(self.allow_scripts.len());
                    // half of the time the entry that goes is the upfront shutdown script of a channel, if there is one
                    let upfront: Vec<usize> = (0..self.allow_scripts.len())
                        .filter(|j| self.chans.iter().any(|c| c.setup.holder_shutdown_script.as_ref() == Some(&self.allow_scripts[*j].1)))
                        .collect();
                    if !upfront.is_empty() && rng.bool() {
                        i = *rng.pick(&upfront);
                        r.count("world.allowlist_script_removed_was_upfront_shutdown_script");
                    }
                    let (a, s) = self.allow_scripts.remove(i);
                    // half of the removals meet a store that is unavailable for one write; the request fails (or
                    // the daemon dies) and the node sends it again; afterwards the signer is restarted
                    let inject = rng.bool();
                    if inject {
                        self.world.store.arm_faults(0, 1);
                    }
                    let a1 = a.clone();
                    let n1 = node.clone();
                    let mut res = report::catch(move || n1.remove_allowlist(&[a1]).map_err(|e| format!("{:?}", e)));
                    let fired = if inject { self.world.store.disarm_faults() } else { 0 };
                    if fired > 0 && !matches!(res, Ok(Ok(()))) {
                        r.count("world.allowlist_removal_met_storage_failure");
                        if res.is_err() {
                            if self.world.restart().is_err() {
                                r.inconclusive("restart failed");
                                return;
                            }
                        }
                        let n2 = self.world.node.clone();
                        let a2 = a.clone();
                        res = report::catch(move || n2.remove_allowlist(&[a2]).map_err(|e| format!("{:?}", e)));
                        r.count("world.allowlist_removal_retried");
                    }
                    if matches!(res, Ok(Ok(()))) {
                        self.removed_scripts.push(s);
                        r.count("world.allowlist_script_removed");
                        if fired > 0 || rng.chance(1, 3) {
                            if self.world.restart().is_err() {
                                r.inconclusive("restart failed");
                                return;
                            }
                            r.count("world.restarts");
                        }
                    } else {
                        r.inconclusive("remove_allowlist failed");
                    }
                }
                1 if !self.allow_xpubs.is_empty() && rng.bool() => {
                    let i = rng.usize(self.allow_xpubs.len());
                    let x = self.allow_xpubs.remove(i);
                    if node.remove_allowlist(&[format!("xpub:{}", x)]).is_ok() {
                        self.foreign_xpubs.push(x);
                        r.count("world.allowlist_xpub_removed");
                    } else {
                        r.inconclusive("remove_allowlist(xpub) failed");
                    }
                }
                2 if rng.bool() => {
                    // a refused addition: a valid destination followed by an entry that does not parse; nothing
                    // of it may take effect, the destination stays one that sweeps must not pay
                    let pk = rand_pubkey(rng, &self.secp);
                    let a = key_address(&self.secp, &pk, rng.below(4), self.net);
                    let res = node.add_allowlist(&[a.to_string(), "not-an-address".to_string()]);
                    r.count("world.allowlist_mixed_addition_sent");
                    if res.is_err() {
                        r.count("world.allowlist_mixed_addition_refused");
                        self.removed_scripts.push(a.script_pubkey());
                    }
                }
                _ => {
                    let pk = rand_pubkey(rng, &self.secp);
                    let a = key_address(&self.secp, &pk, rng.below(4), self.net);
                    if node.add_allowlist(&[a.to_string()]).is_ok() {
                        self.allow_scripts.push((a.to_string(), a.script_pubkey()));
                        r.count("world.allowlist_script_added");
                    } else {
                        r.inconclusive("add_allowlist failed");
                    }
                }
            }
        }
    }
}

// ---------------------------------------------------------------------------------------------
// the protocol-handler entry: the same requests as wire messages (vls-protocol-signer handler.rs)
// ---------------------------------------------------------------------------------------------

/// share of the cases that are ALSO sent through the protocol handler (percent)
const HANDLER_PCT: u64 = 35;
const PROTOCOL_VERSIONS: [u32; 3] = [4, 5, 6];

/// What a signing entry point answered, whichever way it was reached:
/// Ok(Ok((signature, sighash byte))) / Ok(Err(refusal message)) / Err(panic message)
type Answer = Result<Result<(Signature, u8), String>, String>;

fn build_root(node: &Arc<Node>, version: u32) -> Result<RootHandler, String> {
    let node = node.clone();
    report::catch(move || {
        let mut init = InitHandler::new(0, node, Arc::new(PositiveApprover()), version);
        init.handle(WireMessage::HsmdInit(msgs::HsmdInit {
            key_version: Bip32KeyVersion { pubkey_version: 0x043587CF, privkey_version: 0x04358394 },
            chain_params: BlockHash::all_zeros(),
            encryption_key: None,
            dev_privkey: None,
            dev_bip32_seed: None,
            dev_channel_secrets: None,
            dev_channel_secrets_shaseed: None,
            hsm_wire_min_version: 2,
            hsm_wire_max_version: version,
        }))
        .map_err(|e| format!("{:?}", e))?;
        let root: RootHandler = init.into();
        Ok::<_, String>(root)
    })
    .unwrap_or_else(|p| Err(format!("panic: {}", p)))
}

/// the reply of a `Sign*ToUs` / `Sign*HtlcTx` message as an `Answer` (None: not a `SignTxReply`)
fn handler_answer(
    res: Result<Result<Box<dyn msgs::SerBolt>, HandlerError>, String>,
    name: &str,
    r: &mut Report,
) -> Option<Answer> {
    match res {
        Err(p) => Some(Err(p)),
        Ok(Err(HandlerError::Signing(s))) | Ok(Err(HandlerError::Temporary(s))) => Some(Ok(Err(s.message().to_string()))),
        Ok(Err(e)) => Some(Ok(Err(format!("{:?}", e)))),
        Ok(Ok(reply)) => match reply.as_any().downcast_ref::<msgs::SignTxReply>() {
            Some(rep) => match Signature::from_compact(&rep.signature.signature.0) {
                Ok(sig) => Some(Ok(Ok((sig, rep.signature.sighash)))),
                Err(_) => {
                    r.count(&format!("handler.{}.reply_signature_unparsable", name));
                    r.inconclusive(&format!("handler: the signature in the reply to {} does not parse", name));
                    None
                }
            },
            None => {
                r.count(&format!("handler.{}.unexpected_reply_type", name));
                r.inconclusive(&format!("handler: the reply to {} is not a SignTxReply", name));
                None
            }
        },
    }
}

fn answer_tag(a: &Answer) -> &'static str {
    match a {
        Err(_) => "panic",
        Ok(Err(_)) => "refused",
        Ok(Ok(_)) => "accepted",
    }
}

/// The PSBT that accompanies the transaction in the raw-transaction messages.  The handler reads from it:
/// the amount of the spent output (`inputs[input].witness_utxo.value`; every other input carries a different
/// amount), the wallet path hint of a sweep (`outputs[0]` bip32 derivation / taproot key origin; the other
/// outputs carry other paths), the witness script of the HTLC transaction's output (`outputs[0].witness_script`).
/// It does not read the PSBT's own copy of the transaction, which differs from the outer one in some cases.
fn request_psbt(
    rng: &mut Rng,
    tx: &Transaction,
    amount_input: usize,
    amount_sat: u64,
    redeemscript: &Script,
    hint_key: &PublicKey,
    wallet_path: Option<(&DerivationPath, &[u32])>,
    output_witscript: Option<&ScriptBuf>,
) -> Option<(Psbt, Value)> {
    let mut psbt = Psbt::from_unsigned_tx(tx.clone()).ok()?;
    let spk = redeemscript.to_p2wsh();
    let mut amounts = vec![];
    for (i, inp) in psbt.inputs.iter_mut().enumerate() {
        let v = if i == amount_input { amount_sat } else { amount_sat.wrapping_add(1 + rng.below(5000)) };
        amounts.push(v.to_string());
        inp.witness_utxo = Some(TxOut { value: Amount::from_sat(v), script_pubkey: spk.clone() });
    }
    let mut hint = "none";
    if let Some((path, supplied)) = wallet_path {
        for (i, out) in psbt.outputs.iter_mut().enumerate() {
            let pth = if i == 0 {
                if supplied.is_empty() && rng.bool() {
                    continue; // no hint = the master path
                }
                path.clone()
            } else {
                if rng.bool() {
                    continue;
                }
                path_of(&other_path(rng, supplied))
            };
            if tx.output[i].script_pubkey.is_p2tr() && rng.bool() {
                out.tap_key_origins.insert(XOnlyPublicKey::from(*hint_key), (vec![], (Fingerprint::default(), pth)));
                if i == 0 {
                    hint = "tap_key_origins";
                }
            } else {
                out.bip32_derivation.insert(*hint_key, (Fingerprint::default(), pth));
                if i == 0 {
                    hint = "bip32_derivation";
                }
            }
        }
    }
    if let Some(ws) = output_witscript {
        if let Some(o) = psbt.outputs.get_mut(0) {
            o.witness_script = Some(ws.clone());
        }
    }
    let inner_differs = rng.chance(1, 3);
    if inner_differs {
        // "CLN is sending an incorrect tx in the psbt, so use the outer one in the message instead"
        psbt.unsigned_tx.version = Version(2);
        psbt.unsigned_tx.lock_time = LockTime::ZERO;
        for i in psbt.unsigned_tx.input.iter_mut() {
            i.sequence = Sequence(i.sequence.0 ^ 1);
        }
    }
    let info = json!({"psbt_input_amounts_sat": amounts, "psbt_output0_path_hint": hint,
                      "psbt_inner_tx_differs_from_outer": inner_differs});
    Some((psbt, info))
}

fn wire_tx(tx: &Transaction) -> WithSize<Transaction> {
    WithSize(tx.clone())
}

fn wire_psbt(psbt: Psbt) -> WithSize<PsbtWrapper> {
    WithSize(PsbtWrapper { inner: psbt })
}

impl Env {
    /// one root handler per protocol version on the current node (a restart replaces the node)
    fn ensure_roots(&mut self, r: &mut Report) -> bool {
        if self.roots.len() == PROTOCOL_VERSIONS.len() && self.roots.iter().all(|(_, h)| Arc::ptr_eq(h.node(), &self.world.node)) {
            return true;
        }
        self.roots.clear();
        for v in PROTOCOL_VERSIONS {
            match build_root(&self.world.node, v) {
                Ok(h) => self.roots.push((v, h)),
                Err(e) => {
                    r.count("handler.not_built");
                    r.note(&format!("protocol handler (version {}) could not be built: {}", v, e.chars().take(160).collect::<String>()));
                    self.roots.clear();
                    return false;
                }
            }
        }
        r.count("handler.roots_built");
        true
    }
}

// ---------------------------------------------------------------------------------------------
// Part A: sweeps
// ---------------------------------------------------------------------------------------------

#[derive(Clone, Copy, Debug, PartialEq)]
enum DestClass {
    WalletAtPath,
    WalletOtherPath,
    AllowScript,
    XpubChildAtPath,
    XpubChildOtherPath,
    RemovedAllow,
    ForeignXpubChild,
    Unknown,
}

impl DestClass {
    /// "pays a wallet-derivable or allowlisted script" (lenient: derivable at any path counts)
    fn ok(&self) -> bool {
        matches!(
            self,
            DestClass::WalletAtPath
                | DestClass::WalletOtherPath
                | DestClass::AllowScript
                | DestClass::XpubChildAtPath
                | DestClass::XpubChildOtherPath
        )
    }
    fn at_supplied_path_or_listed(&self) -> bool {
        matches!(self, DestClass::WalletAtPath | DestClass::AllowScript | DestClass::XpubChildAtPath)
    }
}

fn other_path(rng: &mut Rng, supplied: &[u32]) -> Vec<u32> {
    loop {
        let p = if rng.chance(1, 5) { vec![rng.below(5) as u32, rng.below(50) as u32] } else { vec![rng.below(60) as u32] };
        if p != supplied {
            return p;
        }
    }
}

fn gen_dest(env: &Env, rng: &mut Rng, supplied: &[u32], want_good: bool) -> (ScriptBuf, DestClass) {
    let secp = &env.secp;
    let net = env.net;
    loop {
        let choice = if want_good { rng.weighted(&[50, 6, 18, 14, 4, 0, 0, 0]) } else { rng.weighted(&[0, 0, 0, 0, 0, 25, 25, 50]) };
        match choice {
            0 | 1 => {
                let at = choice == 0 && !supplied.is_empty();
                let p = if at { supplied.to_vec() } else { other_path(rng, supplied) };
                let pk = match env.acct.derive_pub(secp, &path_of(&p)) {
                    Ok(x) => x.public_key,
                    Err(_) => continue,
                };
                let s = key_script(secp, &pk, rng.below(3), net);
                return (s, if at { DestClass::WalletAtPath } else { DestClass::WalletOtherPath });
            }
            2 => {
                if env.allow_scripts.is_empty() {
                    continue;
                }
                return (rng.pick(&env.allow_scripts).1.clone(), DestClass::AllowScript);
            }
            3 | 4 => {
                if env.allow_xpubs.is_empty() {
                    continue;
                }
                let at = choice == 3 && !supplied.is_empty();
                let p = if at { supplied.to_vec() } else { other_path(rng, supplied) };
                let x = rng.pick(&env.allow_xpubs);
                let pk = match x.derive_pub(secp, &path_of(&p)) {
                    Ok(x) => x.public_key,
                    Err(_) => continue,
                };
                // the xpub entries cover p2wpkh, p2pkh and p2tr children
                let kind = *rng.pick(&[0u64, 3, 2]);
                return (
                    key_script(secp, &pk, kind, net),
                    if at { DestClass::XpubChildAtPath } else { DestClass::XpubChildOtherPath },
                );
            }
            5 => {
                if env.removed_scripts.is_empty() {
                    if want_good {
                        continue;
                    }
                    let pk = rand_pubkey(rng, secp);
                    return (key_script(secp, &pk, rng.below(4), net), DestClass::Unknown);
                }
                return (rng.pick(&env.removed_scripts).clone(), DestClass::RemovedAllow);
            }
            6 => {
                let x = rng.pick(&env.foreign_xpubs);
                let p = if supplied.is_empty() || rng.chance(1, 4) { other_path(rng, supplied) } else { supplied.to_vec() };
                let pk = match x.derive_pub(secp, &path_of(&p)) {
                    Ok(x) => x.public_key,
                    Err(_) => continue,
                };
                return (key_script(secp, &pk, *rng.pick(&[0u64, 3, 2]), net), DestClass::ForeignXpubChild);
            }
            _ => {
                let s = match rng.below(6) {
                    0 => ScriptBuf::new(),
                    1 => {
                        let n = rng.range(1, 40) as usize;
                        ScriptBuf::from_bytes(rng.vec(n))
                    }
                    2 => ScriptBuf::from_bytes(rng.vec(32)).to_p2wsh(),
                    3 => Builder::new().push_opcode(opc::OP_RETURN).push_slice(rng.bytes::<20>()).into_script(),
                    _ => {
                        let pk = rand_pubkey(rng, secp);
                        key_script(secp, &pk, rng.below(4), net)
                    }
                };
                return (s, DestClass::Unknown);
            }
        }
    }
}

#[derive(Clone, Copy, Debug, PartialEq)]
enum SweepKind {
    Delayed,
    CpHtlc,
    Justice,
}

impl SweepKind {
    fn name(&self) -> &'static str {
        match self {
            SweepKind::Delayed => "delayed",
            SweepKind::CpHtlc => "cp_htlc",
            SweepKind::Justice => "justice",
        }
    }
    fn entry(&self) -> &'static str {
        match self {
            SweepKind::Delayed => "sign_delayed_sweep",
            SweepKind::CpHtlc => "sign_counterparty_htlc_sweep",
            SweepKind::Justice => "sign_justice_sweep",
        }
    }
}

/// BOLT-3 / policy-controls: the sequence set of a sweep kind
fn seq_allowed(kind: SweepKind, anchors: bool, cp_delay: u16, s: u32) -> bool {
    let no_rel_lock = matches!(s, 0 | 0xffff_fffd | 0xffff_fffe | 0xffff_ffff);
    match kind {
        SweepKind::Delayed => s == cp_delay as u32,
        SweepKind::CpHtlc =>
            if anchors {
                s == 1
            } else {
                no_rel_lock
            },
        SweepKind::Justice => no_rel_lock,
    }
}

fn good_seq(rng: &mut Rng, kind: SweepKind, anchors: bool, cp_delay: u16) -> u32 {
    match kind {
        SweepKind::Delayed => cp_delay as u32,
        SweepKind::CpHtlc if anchors => 1,
        _ => *rng.pick(&[0u32, 0xffff_fffd, 0xffff_ffff]),
    }
}

fn odd_seq(rng: &mut Rng, c: &ChanCtx) -> u32 {
    let cd = c.setup.counterparty_selected_contest_delay as u32;
    let hd = c.setup.holder_selected_contest_delay as u32;
    match rng.below(14) {
        0 => 0,
        1 => 1,
        2 => 2,
        3 => cd.wrapping_sub(1),
        4 => cd,
        5 => cd + 1,
        6 => hd,
        7 => 0xffff_fffd,
        8 => 0xffff_fffe,
        9 => 0xffff_ffff,
        10 => 0x8000_0000 | cd,
        11 => 0x0040_0000 | cd,
        12 => 0x0001_0000 | cd,
        _ => rng.next_u64() as u32,
    }
}

/// locktime "within the bound implied by the current height" (and, for the script kind that
/// carries an expiry, the expiry).  Time-based locktimes count as in bound when already past.
fn locktime_ok(lt: u32, height: u32, now: u64, received_expiry: Option<i64>) -> bool {
    let by_height = if lt < LOCKTIME_THRESHOLD {
        lt as u64 <= height as u64 + MAX_LAG + LOCKTIME_SLACK
    } else {
        lt as u64 <= now
    };
    by_height || matches!(received_expiry, Some(e) if e >= 0 && (lt as i64) <= e)
}

fn gen_locktime(rng: &mut Rng, height: u32, now: u64, expiry: Option<u32>, good: bool) -> u32 {
    if good {
        if let Some(e) = expiry {
            if rng.chance(3, 4) {
                return e;
            }
        }
        match rng.below(6) {
            0 => 0,
            1 => height,
            2 => height + 1,
            3 => height + 2,
            4 => rng.below(height as u64 + 1) as u32,
            _ => 0,
        }
    } else {
        match rng.below(12) {
            0 => height + 3,
            1 => height + 4,
            2 => height + 5 + rng.below(200) as u32,
            3 => expiry.map(|e| e.saturating_add(1)).unwrap_or(height + 10),
            4 => expiry.map(|e| e.saturating_add(100)).unwrap_or(height + 1000),
            5 => LOCKTIME_THRESHOLD - 1,
            6 => LOCKTIME_THRESHOLD,
            7 => LOCKTIME_THRESHOLD + 1,
            8 => now as u32,
            9 => now as u32 + 1 + rng.below(100_000) as u32,
            10 => u32::MAX,
            _ => height + 3 + rng.below(3) as u32,
        }
    }
}

fn gen_expiry(rng: &mut Rng, height: u32) -> u32 {
    match rng.below(20) {
        0 => rng.below(17) as u32,
        1 => rng.range(17, 1000) as u32,
        2 => LOCKTIME_THRESHOLD - 1,
        3 => LOCKTIME_THRESHOLD,
        4 => 1_700_000_000,
        5 => 0x7fff_ffff,
        6 => 0x8000_0000,
        7 => u32::MAX,
        8 | 9 => height.saturating_sub(rng.below(4) as u32),
        _ => height + rng.below(80) as u32,
    }
}

fn garbage_script(rng: &mut Rng, valid: &ScriptBuf) -> ScriptBuf {
    match rng.below(6) {
        0 => ScriptBuf::new(),
        1 => {
            let n = rng.range(1, 120) as usize;
            ScriptBuf::from_bytes(rng.vec(n))
        }
        2 => {
            let mut b = valid.to_bytes();
            let n = rng.range(1, b.len().max(2) as u64 - 1) as usize;
            b.truncate(n);
            ScriptBuf::from_bytes(b)
        }
        3 => {
            let mut b = valid.to_bytes();
            b.push(opc::OP_DROP.to_u8());
            ScriptBuf::from_bytes(b)
        }
        4 => {
            // flip one opcode byte near the start / end (not inside a push most of the time)
            let mut b = valid.to_bytes();
            if !b.is_empty() {
                let i = if rng.bool() { 0 } else { b.len() - 1 };
                b[i] ^= 0x01;
            }
            ScriptBuf::from_bytes(b)
        }
        _ => Builder::new().push_opcode(opc::OP_PUSHNUM_1).into_script(),
    }
}

fn features_for(setup: &ChannelSetup, flip_anchors: bool) -> lightning::types::features::ChannelTypeFeatures {
    if !flip_anchors {
        return setup.features();
    }
    let mut s = setup.clone();
    s.commitment_type = if setup.is_anchors() { CommitmentType::StaticRemoteKey } else { CommitmentType::AnchorsZeroFeeHtlc };
    s.features()
}

struct CaseId {
    seed: u64,
    shard: usize,
    world: u64,
    case: u64,
}

impl CaseId {
    fn json(&self) -> Value {
        json!({"seed": self.seed, "shard": self.shard, "world": self.world, "case": self.case})
    }
}

fn sweep_case(env: &mut Env, rng: &mut Rng, r: &mut Report, cid: &CaseId) -> Option<usize> {
    let have_roots = env.ensure_roots(r);
    let kind = *rng.pick(&[SweepKind::Delayed, SweepKind::CpHtlc, SweepKind::Justice]);
    let ci = rng.usize(env.chans.len());
    let now = env.world.now();
    let height = env.height;
    let k = kind.name();
    let c = &env.chans[ci];
    let anchors = c.anchors();
    let cp_delay = c.setup.counterparty_selected_contest_delay;
    let secp = &env.secp;

    // a case is either "mostly valid" (each field good with high probability) or wilder
    let pg: u64 = if rng.chance(7, 10) { 93 } else { 60 };
    let good = |rng: &mut Rng| rng.below(100) < pg;

    // wallet path supplied with the request
    let supplied: Vec<u32> = match rng.below(25) {
        0 => vec![],
        1 | 2 => vec![rng.below(5) as u32, rng.below(50) as u32],
        _ => vec![rng.below(60) as u32],
    };
    let wallet_path = path_of(&supplied);

    // inputs
    let n_in = 1 + rng.weighted(&[60, 25, 15]);
    let input = if rng.chance(1, 40) { n_in } else { rng.usize(n_in) };
    let mut inputs = vec![];
    for _ in 0..n_in {
        let s = if good(rng) { good_seq(rng, kind, anchors, cp_delay) } else { odd_seq(rng, c) };
        inputs.push(TxIn {
            previous_output: OutPoint { txid: Txid::from_byte_array(rng.bytes::<32>()), vout: rng.below(6) as u32 },
            script_sig: ScriptBuf::new(),
            sequence: Sequence(s),
            witness: Witness::default(),
        });
    }

    // kind-specific: key material, redeemscript, expected signing key
    let amount_sat = match rng.below(30) {
        0 => 0,
        1 => u64::MAX,
        2 => 21_000_000 * 100_000_000,
        _ => rng.range(1_000, 5_000_000),
    };
    let mut other_refusal = input >= n_in;
    let mut commit_num = 0u64;
    let mut remote_pcp = rand_pubkey(rng, secp);
    let mut rev_secret = rand_secret(rng);
    let mut htlc_class: Option<(bool, Option<i64>)> = None; // my reading of the HTLC script
    let mut gen_script = "revokeable";
    let mut tx_expiry: Option<u32> = None;
    let redeemscript: ScriptBuf;
    let expected_key: Option<PublicKey>;
    match kind {
        SweepKind::Delayed => {
            commit_num = if rng.chance(1, 25) { c.next_holder + 2 + rng.below(3) } else { rng.below(c.next_holder + 2) };
            if commit_num > c.next_holder + 1 {
                other_refusal = true;
            }
            let pcp = env.holder_pcp(c, commit_num, r);
            let delayed = pcp.and_then(|p| derive_pub(secp, &p, &c.holder.delayed_payment_basepoint.0));
            let rev = pcp.and_then(|p| derive_rev(secp, &p, &c.setup.counterparty_points.revocation_basepoint.0));
            expected_key = delayed;
            let valid = match (rev, delayed) {
                (Some(rv), Some(d)) => revokeable_script(&rv, cp_delay, &d),
                _ => ScriptBuf::new(),
            };
            redeemscript = if rng.chance(1, 12) {
                gen_script = "garbage";
                garbage_script(rng, &valid)
            } else {
                valid
            };
        }
        SweepKind::Justice => {
            if rng.chance(1, 2) {
                rev_secret = rand_secret(rng);
            }
            let pcp = PublicKey::from_secret_key(secp, &rev_secret);
            let rev = derive_rev(secp, &pcp, &c.holder.revocation_basepoint.0);
            let delayed = derive_pub(secp, &pcp, &c.setup.counterparty_points.delayed_payment_basepoint.0);
            expected_key = rev;
            let valid = match (rev, delayed) {
                (Some(rv), Some(d)) => revokeable_script(&rv, c.setup.holder_selected_contest_delay, &d),
                _ => ScriptBuf::new(),
            };
            redeemscript = if rng.chance(1, 12) {
                gen_script = "garbage";
                garbage_script(rng, &valid)
            } else {
                valid
            };
        }
        SweepKind::CpHtlc => {
            if rng.bool() {
                remote_pcp = rand_pubkey(rng, secp);
            }
            expected_key = derive_pub(secp, &remote_pcp, &c.holder.htlc_basepoint.0);
            let offered = rng.bool();
            let expiry = gen_expiry(rng, height);
            let cp = &c.setup.counterparty_points;
            let keys = TxCreationKeys::derive_new(
                secp,
                &remote_pcp,
                &cp.delayed_payment_basepoint,
                &cp.htlc_basepoint,
                &c.holder.revocation_basepoint,
                &c.holder.htlc_basepoint,
            );
            let htlc = HTLCOutputInCommitment {
                offered,
                amount_msat: amount_sat.min(1 << 40) * 1000,
                cltv_expiry: expiry,
                payment_hash: PaymentHash(rng.bytes::<32>()),
                transaction_output_index: Some(0),
            };
            let which = rng.weighted(&[88, 5, 7]);
            let valid = get_htlc_redeemscript(&htlc, &features_for(&c.setup, which == 1), &keys);
            if which == 0 {
                // self-check of the independent template matcher on an LDK-built script
                let want_exp = if offered { None } else { Some(expiry as i64) };
                if classify_htlc_script(&valid, anchors) != Some((offered, want_exp)) {
                    r.inconclusive("harness: template matcher disagrees with an LDK-built HTLC script");
                }
                r.count("selfcheck.htlc_template_matches_ldk_script");
            }
            gen_script = match which {
                0 if offered => "offered",
                0 => "received",
                1 => "other-anchors-setting",
                _ => "garbage",
            };
            redeemscript = if which == 2 { garbage_script(rng, &valid) } else { valid };
            htlc_class = classify_htlc_script(&redeemscript, anchors);
            if let Some((false, Some(e))) = htlc_class {
                if e >= 0 && e <= u32::MAX as i64 {
                    tx_expiry = Some(e as u32);
                }
            }
        }
    }

    let lt_good = good(rng);
    let lt = gen_locktime(rng, height, now, tx_expiry, lt_good);
    let version = if good(rng) { 2 } else { *rng.pick(&[1i32, 3, 0, -1, i32::MAX, 2]) };
    let n_out = rng.weighted(&[4, 56, 25, 15]);
    let mut outputs = vec![];
    let mut classes = vec![];
    for _ in 0..n_out {
        let g = good(rng);
        let (mut s, mut cl) = gen_dest(env, rng, &supplied, g);
        // the channel's own upfront shutdown script as a sweep destination: fine while allowlisted, not afterwards
        if let Some(up) = c.setup.holder_shutdown_script.as_ref() {
            let listed = env.allow_scripts.iter().any(|(_, x)| x == up);
            if g && listed && rng.chance(1, 6) {
                s = up.clone();
                cl = DestClass::AllowScript;
                r.count("dest.upfront_shutdown_script.allowlisted");
            } else if !g && !listed && env.removed_scripts.contains(up) && rng.bool() {
                s = up.clone();
                cl = DestClass::RemovedAllow;
                r.count("dest.upfront_shutdown_script.removed_from_allowlist");
            }
        }
        outputs.push(TxOut { value: Amount::from_sat(rng.range(0, 4_000_000)), script_pubkey: s });
        classes.push(cl);
    }
    let tx = Transaction { version: Version(version), lock_time: LockTime::from_consensus(lt), input: inputs, output: outputs };

    // ---- the reference judgement, from the property ----
    let mut bad: Vec<&'static str> = vec![];
    if version != 2 {
        bad.push("version");
    }
    let received_expiry = match htlc_class {
        Some((false, e)) => e,
        _ => None,
    };
    if !locktime_ok(lt, height, now, received_expiry) {
        bad.push("locktime");
    }
    let s0 = tx.input[0].sequence.0;
    let ss = tx.input.get(input).map(|i| i.sequence.0);
    let seq_fits = seq_allowed(kind, anchors, cp_delay, s0) || ss.map(|s| seq_allowed(kind, anchors, cp_delay, s)).unwrap_or(false);
    if !seq_fits {
        bad.push("sequence");
    }
    let bad_outputs: Vec<usize> = classes.iter().enumerate().filter(|(_, c)| !c.ok()).map(|(i, _)| i).collect();
    if !bad_outputs.is_empty() {
        bad.push("output");
    }
    if kind == SweepKind::CpHtlc && htlc_class.is_none() {
        bad.push("redeemscript");
    }

    // ---- the call ----
    let node = env.world.node.clone();
    let id = c.id.clone();
    let res = report::catch(|| {
        node.with_channel(&id, |chan| match kind {
            SweepKind::Delayed => chan.sign_delayed_sweep(&tx, input, commit_num, &redeemscript, amount_sat, &wallet_path),
            SweepKind::CpHtlc =>
                chan.sign_counterparty_htlc_sweep(&tx, input, &remote_pcp, &redeemscript, amount_sat, &wallet_path),
            SweepKind::Justice => chan.sign_justice_sweep(&tx, input, &rev_secret, &redeemscript, amount_sat, &wallet_path),
        })
    });
    let direct: Answer = match res {
        Err(p) => Err(p),
        Ok(Err(e)) => Ok(Err(e.message().to_string())),
        Ok(Ok(sig)) => Ok(Ok((sig, EcdsaSighashType::All as u8))),
    };
    // (counter prefix, entry point, wire details, answer)
    let mut answers: Vec<(&'static str, String, Value, Answer)> = vec![];
    let direct_panicked = direct.is_err();
    let direct_tag = answer_tag(&direct);
    answers.push(("A", kind.entry().to_string(), Value::Null, direct));

    // ---- the same request as a wire message through the protocol handler ----
    // (a panic of the direct call has poisoned the channel's slot: nothing more to learn from it)
    if have_roots && !direct_panicked && rng.below(100) < HANDLER_PCT {
        // the per-channel messages sign input 0; the root handler's take the input index, the peer id and the dbid
        let legacy = input == 0 && rng.chance(2, 5);
        let name = match (kind, legacy) {
            (SweepKind::Delayed, false) => "SignAnyDelayedPaymentToUs",
            (SweepKind::Delayed, true) => "SignDelayedPaymentToUs",
            (SweepKind::CpHtlc, false) => "SignAnyRemoteHtlcToUs",
            (SweepKind::CpHtlc, true) => "SignRemoteHtlcToUs",
            (SweepKind::Justice, false) => "SignAnyPenaltyToUs",
            (SweepKind::Justice, true) => "SignPenaltyToUs",
        };
        // `psbt.inputs[input]` / `wallet_paths[0]` in the handler: an index panic, not a refusal (counted only)
        let sure_panic = input >= n_in || n_out == 0;
        if sure_panic && !rng.chance(1, 4) {
            r.count(&format!("handler.{}.not_sent_no_outputs_or_input_index_out_of_range", name));
        } else if let Some((psbt, pinfo)) =
            request_psbt(rng, &tx, input, amount_sat, &redeemscript, &env.acct.public_key, Some((&wallet_path, &supplied)), None)
        {
            let (version, root) = rng.pick(&env.roots);
            let option_anchors = if rng.chance(1, 8) { !anchors } else { anchors };
            let wtx = wire_tx(&tx);
            let wpsbt = wire_psbt(psbt);
            let wscript = Octets(redeemscript.to_bytes());
            let peer_id = PubKey(c.peer);
            let dbid = c.dbid;
            let msg = match (kind, legacy) {
                (SweepKind::Delayed, false) => WireMessage::SignAnyDelayedPaymentToUs(msgs::SignAnyDelayedPaymentToUs {
                    commitment_number: commit_num, tx: wtx, psbt: wpsbt, wscript, input: input as u32, peer_id, dbid,
                }),
                (SweepKind::Delayed, true) => WireMessage::SignDelayedPaymentToUs(msgs::SignDelayedPaymentToUs {
                    commitment_number: commit_num, tx: wtx, psbt: wpsbt, wscript,
                }),
                (SweepKind::CpHtlc, false) => WireMessage::SignAnyRemoteHtlcToUs(msgs::SignAnyRemoteHtlcToUs {
                    remote_per_commitment_point: PubKey(remote_pcp.serialize()), tx: wtx, psbt: wpsbt, wscript,
                    option_anchors, input: input as u32, peer_id, dbid,
                }),
                (SweepKind::CpHtlc, true) => WireMessage::SignRemoteHtlcToUs(msgs::SignRemoteHtlcToUs {
                    remote_per_commitment_point: PubKey(remote_pcp.serialize()), tx: wtx, psbt: wpsbt, wscript, option_anchors,
                }),
                (SweepKind::Justice, false) => WireMessage::SignAnyPenaltyToUs(msgs::SignAnyPenaltyToUs {
                    revocation_secret: DisclosedSecret(rev_secret.secret_bytes()), tx: wtx, psbt: wpsbt, wscript,
                    input: input as u32, peer_id, dbid,
                }),
                (SweepKind::Justice, true) => WireMessage::SignPenaltyToUs(msgs::SignPenaltyToUs {
                    revocation_secret: DisclosedSecret(rev_secret.secret_bytes()), tx: wtx, psbt: wpsbt, wscript,
                }),
            };
            let hres = if legacy {
                let h = root.for_new_client(1, PubKey(c.peer), c.dbid);
                report::catch(|| h.handle(msg))
            } else {
                report::catch(|| root.handle(msg))
            };
            r.count(&format!("handler.{}.requests", name));
            r.count(&format!("handler.protocol_version_{}.requests", version));
            if let Some(ans) = handler_answer(hres, name, r) {
                r.count(&format!("handler.{}.{}", name, match &ans { Err(_) => "panic", Ok(Err(_)) => "refused", Ok(Ok(_)) => "ok" }));
                let t = answer_tag(&ans);
                if t == direct_tag {
                    r.count("handler.A.same_outcome_as_direct_call");
                } else {
                    // counted, not judged: the verdict on the handler's answer is the oracle's, below
                    r.count(&format!("handler.A.{}.direct_{}_handler_{}", name, direct_tag, t));
                }
                let winfo = json!({"message": name, "protocol_version": version, "option_anchors": option_anchors,
                                   "peer_id": hex::encode(c.peer), "dbid": c.dbid, "psbt": pinfo});
                answers.push(("hA", format!("protocol handler: {}", name), winfo, ans));
            }
        } else {
            r.count("handler.psbt_not_built");
        }
    }

    let detail = |entry: &str, wire: &Value, extra: Value| -> Value {
        json!({
            "entry_point": entry,
            "wire_request": wire,
            "replay": cid.json(),
            "env": env.env_json(),
            "channel": c.summary(),
            "tx_hex": serialize_hex(&tx),
            "version": version, "locktime": lt, "sequences": tx.input.iter().map(|i| i.sequence.0).collect::<Vec<_>>(),
            "signed_input": input,
            "commitment_number": commit_num,
            "remote_per_commitment_point": remote_pcp.to_string(),
            "revocation_secret": hex::encode(rev_secret.secret_bytes()),
            "redeemscript_hex": hex::encode(redeemscript.as_bytes()),
            "redeemscript_generated_as": gen_script,
            "redeemscript_read_as": htlc_class.map(|(o, e)| json!({"offered": o, "expiry": e})),
            "amount_sat": amount_sat,
            "wallet_path": supplied,
            "output_classes": classes.iter().map(|c| format!("{:?}", c)).collect::<Vec<_>>(),
            "output_scripts": tx.output.iter().map(|o| hex::encode(o.script_pubkey.as_bytes())).collect::<Vec<_>>(),
            "oracle_clauses_violated": bad,
            "observed": extra,
        })
    };

    let mut poisoned = None;
    let mut cls: Vec<String> = classes.iter().map(|c| format!("{:?}", c)).collect();
    cls.sort();
    cls.dedup();
    let lt_rel = if lt == 0 {
        "0"
    } else if lt >= LOCKTIME_THRESHOLD {
        "time"
    } else if lt as u64 <= height as u64 + MAX_LAG {
        "<=h+2"
    } else if lt as u64 == height as u64 + MAX_LAG + 1 {
        "h+3"
    } else {
        ">h+3"
    };
    // the same reference judgement for every way the request reached the signer
    for (p, entry, wire, ans) in answers.iter() {
        let p = *p;
        let outcome;
        r.eval(1);
        r.count(&format!("{}.{}.calls", p, k));
        match ans {
            Err(pm) => {
                outcome = "panic";
                poisoned = Some(ci);
                r.count(&format!("{}.{}.panic", p, k));
                r.set_add(&format!("{}.panics", p), &pm.chars().take(160).collect::<String>());
            }
            Ok(Err(e)) => {
                outcome = "refused";
                r.count(&format!("{}.{}.refused", p, k));
                let tag = reason_tag(e);
                if bad.is_empty() && !other_refusal {
                    r.count(&format!("{}.{}.clean.refused", p, k));
                    r.set_add(&format!("{}.{}.clean_refusal_reasons", p, k), &tag);
                } else if bad.len() == 1 && !other_refusal {
                    r.count(&format!("{}.{}.only_bad_{}.refused", p, k, bad[0]));
                    r.count(&format!("{}.any.only_bad_{}.refused", p, bad[0]));
                }
                if other_refusal {
                    r.count(&format!("{}.{}.bad_index_or_commit_num.refused", p, k));
                }
                r.set_add(&format!("{}.refusal_reasons", p), &tag);
                if r.get(&format!("{}.{}.refused", p, k)) <= 1 && cid.shard == 0 {
                    r.sample(detail(entry, wire, json!({"result": "refused", "message": e})));
                }
            }
            Ok(Ok((sig, sighash))) => {
                outcome = "accepted";
                r.count(&format!("{}.{}.accepted", p, k));
                // antecedents of the five rules
                r.count(&format!("{}.rule.version.checked", p));
                r.count(&format!("{}.rule.locktime.checked", p));
                r.count(&format!("{}.rule.sequence.checked", p));
                r.count_n(&format!("{}.rule.output.outputs_checked", p), classes.len() as u64);
                r.count(&format!("{}.rule.signature.checked", p));
                if classes.len() >= 2 {
                    r.count(&format!("{}.accepted.multi_output", p));
                    r.count(&format!("{}.{}.accepted.multi_output", p, k));
                }
                if classes.is_empty() {
                    r.count(&format!("{}.accepted.zero_outputs", p));
                }
                if tx.input.len() >= 2 {
                    r.count(&format!("{}.accepted.multi_input", p));
                    if input != 0 {
                        r.count(&format!("{}.accepted.signed_input_not_0", p));
                        if !ss.map(|s| seq_allowed(kind, anchors, cp_delay, s)).unwrap_or(false) {
                            // observation only (lenient disjunction, see DESIGN.md C09)
                            r.count(&format!("{}.accepted.signed_input_sequence_outside_set_input0_fits", p));
                        }
                    }
                }
                for cl in &classes {
                    r.count(&format!("{}.accepted.output_class.{:?}", p, cl));
                    if cl.ok() && !cl.at_supplied_path_or_listed() {
                        r.count(&format!("{}.accepted.output_derivable_only_at_other_path", p));
                    }
                }
                if lt >= LOCKTIME_THRESHOLD {
                    r.count(&format!("{}.accepted.time_based_locktime", p));
                }
                if let Some(e) = tx_expiry {
                    if lt as u64 > height as u64 + MAX_LAG && lt <= e {
                        r.count(&format!("{}.accepted.locktime_justified_by_expiry_only", p));
                    }
                }
                if gen_script == "garbage" {
                    r.count(&format!("{}.{}.accepted.garbage_redeemscript", p, k));
                }
                if bad.is_empty() {
                    r.count(&format!("{}.{}.clean.accepted", p, k));
                }
                for b in &bad {
                    let sig_name = match *b {
                        "version" => "c09:sweep-accepted-bad-version",
                        "locktime" => "c09:sweep-accepted-bad-locktime",
                        "sequence" => "c09:sweep-accepted-bad-sequence",
                        "output" => "c09:sweep-accepted-unknown-output",
                        _ => "c09:sweep-accepted-unparseable-htlc-script",
                    };
                    r.violation(sig_name, detail(entry, wire, json!({"result": "signed", "clause": b, "bad_output_indices": bad_outputs})));
                }
                // the signature must verify under the expected derived key over the supplied request
                // (a sweep is signed SIGHASH_ALL: the sighash byte of the handler's reply must say so)
                let verified = match (expected_key, p2wsh_sighash(&tx, input, &redeemscript, amount_sat, EcdsaSighashType::All)) {
                    (Some(pkey), Some(msg)) =>
                        Some(*sighash == EcdsaSighashType::All as u8 && secp.verify_ecdsa(&msg, sig, &pkey).is_ok()),
                    _ => None,
                };
                match verified {
                    Some(true) => r.count(&format!("{}.{}.signature_verified", p, k)),
                    Some(false) => r.violation(
                        "c09:signature-does-not-verify",
                        detail(entry, wire, json!({"result": "signed", "signature": sig.to_string(), "sighash_byte": sighash,
                                      "expected_key": expected_key.map(|k| k.to_string())})),
                    ),
                    None => r.inconclusive("harness: could not compute expected key / sighash for an accepted sweep"),
                }
                if r.get(&format!("{}.{}.accepted", p, k)) <= 1 && cid.shard == 0 {
                    r.sample(detail(entry, wire, json!({"result": "signed", "signature": sig.to_string()})));
                }
            }
        }
        r.distinct_hash(fnv_str(&format!(
            "{}:{}:{}:{}:{}:{}:{}:{}:{:?}:{}:{}:{}",
            p, k, anchors, outcome, version == 2, lt_rel, n_in, input.min(3),
            cls, gen_script, seq_allowed(kind, anchors, cp_delay, s0),
            ss.map(|s| seq_allowed(kind, anchors, cp_delay, s)).unwrap_or(false)
        )));
    }

    // generated-situation counters (what the workload reached, whatever the outcome)
    for b in &bad {
        r.count(&format!("A.gen.bad_{}", b));
    }
    poisoned
}

// ---------------------------------------------------------------------------------------------
// Part B: second-level HTLC transactions presented with their scripts
// ---------------------------------------------------------------------------------------------

/// BOLT-3 expected weights of the second-level transactions
fn htlc_tx_weight(offered: bool, anchors: bool) -> u64 {
    match (offered, anchors) {
        (true, false) => 663,
        (true, true) => 666,
        (false, false) => 703,
        (false, true) => 706,
    }
}

/// Is there a feerate f in [min-1, max+1] with floor(f * weight / 1000) == fee ?
fn fee_in_policy_range(fee: u64, weight: u64, min: u64, max: u64) -> bool {
    let fee = fee as u128;
    let w = weight as u128;
    let lo = (fee * 1000 + w - 1) / w; // smallest f with f*w/1000 >= fee
    let hi = ((fee + 1) * 1000 + w - 1) / w; // smallest f with f*w/1000 >= fee+1
    if hi <= lo {
        return false;
    }
    let (lo, hi) = (lo, hi - 1);
    let pmin = (min as u128).saturating_sub(1);
    let pmax = max as u128 + 1;
    lo <= pmax && hi >= pmin
}

fn gen_feerate(rng: &mut Rng, min: u64, max: u64) -> u32 {
    let v = match rng.below(20) {
        0 => min.saturating_sub(1),
        1 => min,
        2 => min + 1,
        3 => max - 1,
        4 => max,
        5 => max + 1,
        6 => max + 2 + rng.below(1000),
        7 => 0,
        8 => rng.below(min),
        9 => 1_000_000 + rng.below(1_000_000),
        10 => u32::MAX as u64,
        11 | 12 => rng.range(min, (min * 4).min(max)),
        _ => rng.range(min, max),
    };
    v.min(u32::MAX as u64) as u32
}

fn htlc_tx_case(env: &mut Env, rng: &mut Rng, r: &mut Report, cid: &CaseId) -> Option<usize> {
    let have_roots = env.ensure_roots(r);
    let ci = rng.usize(env.chans.len());
    let c = &env.chans[ci];
    let secp = &env.secp;
    let anchors = c.anchors();
    let zero_fee = c.zero_fee();
    let height = env.height;
    let is_cp = rng.bool();
    let k = if is_cp { "counterparty" } else { "holder" };
    let entry = if is_cp { "sign_counterparty_htlc_tx" } else { "sign_holder_htlc_tx" };
    let offered = rng.bool();
    let features = c.setup.features();

    // harness-held HTLC parameters
    let mut amount_sat: u64 = match rng.below(40) {
        0 => rng.below(1000),
        1 => rng.range(1_000_000_000, 1_000_000_000_000),
        2 => *rng.pick(&[u64::MAX, u64::MAX / 1000 + 1, 1u64 << 63, 2_100_000_000_000_000, u64::MAX / 1000]),
        _ => rng.range(1_000, 16_777_216),
    };
    let feerate = gen_feerate(rng, env.min_feerate, env.max_feerate);
    let expiry: u32 = match rng.below(16) {
        0 => 1,
        1 => LOCKTIME_THRESHOLD - 1,
        2 => LOCKTIME_THRESHOLD,
        3 => u32::MAX,
        _ => height + rng.below(300) as u32,
    };
    let commitment_txid = Txid::from_byte_array(rng.bytes::<32>());
    let vout = if rng.chance(1, 20) { rng.next_u64() as u32 } else { rng.below(6) as u32 };

    // per-commitment point
    let mut commit_num = 0u64;
    let mut opt_pcp: Option<PublicKey> = None;
    let mut other_refusal = false;
    let pcp: Option<PublicKey> = if is_cp {
        Some(rand_pubkey(rng, secp))
    } else {
        match rng.below(20) {
            0 => {
                commit_num = c.next_holder + 2 + rng.below(5);
                other_refusal = true;
                None
            }
            1..=9 => {
                commit_num = rng.next_u64() >> rng.below(64);
                let p = rand_pubkey(rng, secp);
                opt_pcp = Some(p);
                Some(p)
            }
            _ => {
                commit_num = rng.below(c.next_holder + 2);
                env.holder_pcp(c, commit_num, r)
            }
        }
    };
    let key_pcp = pcp.unwrap_or_else(|| rand_pubkey(rng, secp));

    // the keys and the delay of the BOLT-3 HTLC transaction, derived here from the basepoints
    let cp = &c.setup.counterparty_points;
    let (delayed_base, rev_base, delay) = if is_cp {
        (cp.delayed_payment_basepoint.0, c.holder.revocation_basepoint.0, c.setup.holder_selected_contest_delay)
    } else {
        (c.holder.delayed_payment_basepoint.0, cp.revocation_basepoint.0, c.setup.counterparty_selected_contest_delay)
    };
    let (delayed_key, rev_key, sign_key) = match (
        derive_pub(secp, &key_pcp, &delayed_base),
        derive_rev(secp, &key_pcp, &rev_base),
        derive_pub(secp, &key_pcp, &c.holder.htlc_basepoint.0),
    ) {
        (Some(a), Some(b), Some(d)) => (a, b, d),
        _ => {
            r.count("B.skipped_degenerate_key");
            return None;
        }
    };
    let canonical_out_script = revokeable_script(&rev_key, delay, &delayed_key).to_p2wsh();

    // canonical transaction, by hand
    let weight = htlc_tx_weight(offered, anchors);
    let fee = if zero_fee { 0 } else { feerate as u64 * weight / 1000 };
    let can_build = fee <= amount_sat;
    let hand = Transaction {
        version: Version(2),
        lock_time: LockTime::from_consensus(if offered { expiry } else { 0 }),
        input: vec![TxIn {
            previous_output: OutPoint { txid: commitment_txid, vout },
            script_sig: ScriptBuf::new(),
            sequence: Sequence(if anchors { 1 } else { 0 }),
            witness: Witness::default(),
        }],
        output: vec![TxOut { value: Amount::from_sat(amount_sat.saturating_sub(fee)), script_pubkey: canonical_out_script.clone() }],
    };
    let htlc = HTLCOutputInCommitment {
        offered,
        amount_msat: amount_sat.wrapping_mul(1000),
        cltv_expiry: expiry,
        payment_hash: PaymentHash(rng.bytes::<32>()),
        transaction_output_index: Some(vout),
    };
    // ... and with LDK's builder (the brief's canonical constructor), as a cross-check of the hand-built one
    if can_build && amount_sat <= u64::MAX / 1000 {
        let ldk = build_htlc_transaction(
            &commitment_txid,
            feerate,
            delay,
            &htlc,
            &features,
            &DelayedPaymentKey(delayed_key),
            &RevocationKey(rev_key),
        );
        if ldk != hand {
            r.inconclusive("harness: hand-built BOLT-3 HTLC tx differs from LDK build_htlc_transaction");
            r.note(&format!("hand {} ldk {}", serialize_hex(&hand), serialize_hex(&ldk)));
        }
        r.count("selfcheck.hand_built_htlc_tx_equals_ldk");
    }
    let mut tx = hand.clone();

    // scripts
    let script_keys = |rng: &mut Rng, foreign: bool| -> TxCreationKeys {
        if foreign {
            TxCreationKeys {
                per_commitment_point: key_pcp,
                revocation_key: RevocationKey(rand_pubkey(rng, secp)),
                broadcaster_htlc_key: HtlcKey(rand_pubkey(rng, secp)),
                countersignatory_htlc_key: HtlcKey(rand_pubkey(rng, secp)),
                broadcaster_delayed_payment_key: DelayedPaymentKey(delayed_key),
            }
        } else {
            let (b, cs) = if is_cp { (cp.htlc_basepoint.0, c.holder.htlc_basepoint.0) } else { (c.holder.htlc_basepoint.0, cp.htlc_basepoint.0) };
            TxCreationKeys {
                per_commitment_point: key_pcp,
                revocation_key: RevocationKey(rev_key),
                broadcaster_htlc_key: HtlcKey(derive_pub(secp, &key_pcp, &b).unwrap_or(key_pcp)),
                countersignatory_htlc_key: HtlcKey(derive_pub(secp, &key_pcp, &cs).unwrap_or(key_pcp)),
                broadcaster_delayed_payment_key: DelayedPaymentKey(delayed_key),
            }
        }
    };
    let keys = script_keys(rng, false);
    let mut redeemscript = get_htlc_redeemscript(&htlc, &features, &keys);
    let mut witscript = revokeable_script(&rev_key, delay, &delayed_key);

    // mutations
    let n_mut = rng.weighted(&[42, 42, 16]);
    let mut muts: Vec<&'static str> = vec![];
    for _ in 0..n_mut {
        if tx.input.is_empty() || tx.output.is_empty() {
            break;
        }
        let m = rng.below(17);
        match m {
            0 => {
                tx.version = Version(*rng.pick(&[1i32, 3, 0, -1]));
                muts.push("version");
            }
            1 => {
                let cur = tx.lock_time.to_consensus_u32();
                let v = if offered {
                    *rng.pick(&[0u32, 0, cur.wrapping_add(1), LOCKTIME_THRESHOLD, height])
                } else {
                    *rng.pick(&[1u32, expiry, height, LOCKTIME_THRESHOLD])
                };
                tx.lock_time = LockTime::from_consensus(v);
                muts.push("locktime");
            }
            2 => {
                let cur = tx.input[0].sequence.0;
                let mut v = *rng.pick(&[0u32, 1, 2, delay as u32, 0xffff_ffff, 0xffff_fffd]);
                if v == cur {
                    v = cur.wrapping_add(1);
                }
                tx.input[0].sequence = Sequence(v);
                muts.push("sequence");
            }
            3 => {
                if rng.bool() {
                    tx.input[0].previous_output.txid = Txid::from_byte_array(rng.bytes::<32>());
                } else {
                    tx.input[0].previous_output.vout ^= 1 << rng.below(8);
                }
                muts.push("outpoint");
            }
            4 | 5 => {
                let cur = tx.output[0].value.to_sat();
                let v = match rng.below(8) {
                    0 => cur.wrapping_add(1),
                    1 => cur.wrapping_sub(1),
                    2 => amount_sat,
                    3 => 0,
                    4 => amount_sat.wrapping_add(1),
                    5 => cur.saturating_sub(rng.below(5_000)),
                    6 => cur.saturating_sub(amount_sat / 2),
                    _ => cur.saturating_add(rng.below(fee + 2)),
                };
                tx.output[0].value = Amount::from_sat(v);
                muts.push("output_value");
            }
            6 | 7 => {
                // a different output script
                let other_pcp = rand_pubkey(rng, secp);
                let (od, orv) = if is_cp {
                    (c.holder.delayed_payment_basepoint.0, cp.revocation_basepoint.0)
                } else {
                    (cp.delayed_payment_basepoint.0, c.holder.revocation_basepoint.0)
                };
                let other_delay = if is_cp { c.setup.counterparty_selected_contest_delay } else { c.setup.holder_selected_contest_delay };
                let s = match rng.below(10) {
                    0 => revokeable_script(&rev_key, delay.wrapping_add(1), &delayed_key).to_p2wsh(),
                    1 => revokeable_script(&rev_key, delay.wrapping_sub(1), &delayed_key).to_p2wsh(),
                    2 => revokeable_script(&rev_key, other_delay.wrapping_add((other_delay == delay) as u16), &delayed_key).to_p2wsh(),
                    3 => revokeable_script(&delayed_key, delay, &rev_key).to_p2wsh(),
                    4 => match (derive_rev(secp, &key_pcp, &orv), derive_pub(secp, &key_pcp, &od)) {
                        (Some(a), Some(b)) => revokeable_script(&a, delay, &b).to_p2wsh(),
                        _ => ScriptBuf::new(),
                    },
                    5 => match (derive_rev(secp, &other_pcp, &rev_base), derive_pub(secp, &other_pcp, &delayed_base)) {
                        (Some(a), Some(b)) => revokeable_script(&a, delay, &b).to_p2wsh(),
                        _ => ScriptBuf::new(),
                    },
                    6 => revokeable_script(&rev_base, delay, &delayed_base).to_p2wsh(),
                    7 => gen_dest(env, rng, &[3], true).0,
                    8 => ScriptBuf::new_p2sh(&revokeable_script(&rev_key, delay, &delayed_key).script_hash()),
                    _ => gen_dest(env, rng, &[3], false).0,
                };
                tx.output[0].script_pubkey = s;
                muts.push("output_script");
            }
            8 => {
                tx.input.push(TxIn {
                    previous_output: OutPoint { txid: Txid::from_byte_array(rng.bytes::<32>()), vout: 0 },
                    script_sig: ScriptBuf::new(),
                    sequence: Sequence(0xffff_fffd),
                    witness: Witness::default(),
                });
                muts.push("extra_input");
            }
            9 => {
                let g = rng.bool();
                let (s, _) = gen_dest(env, rng, &[1], g);
                tx.output.push(TxOut { value: Amount::from_sat(rng.below(100_000)), script_pubkey: s });
                muts.push("extra_output");
            }
            10 => {
                if rng.chance(1, 3) {
                    tx.output.clear();
                    muts.push("no_outputs");
                } else if rng.bool() {
                    tx.input.clear();
                    muts.push("no_inputs");
                } else {
                    // the canonical output no longer at index 0
                    let (s, _) = gen_dest(env, rng, &[1], false);
                    tx.output.insert(0, TxOut { value: Amount::from_sat(1000), script_pubkey: s });
                    muts.push("canonical_output_moved_to_index_1");
                }
            }
            11 | 12 => {
                let mut h2 = htlc.clone();
                redeemscript = match rng.below(6) {
                    0 => {
                        h2.offered = !h2.offered;
                        muts.push("redeemscript_other_kind");
                        get_htlc_redeemscript(&h2, &features, &keys)
                    }
                    1 | 2 => {
                        muts.push("redeemscript_foreign_keys");
                        let fk = script_keys(rng, true);
                        get_htlc_redeemscript(&htlc, &features, &fk)
                    }
                    3 => {
                        muts.push("redeemscript_other_anchors_setting");
                        get_htlc_redeemscript(&htlc, &features_for(&c.setup, true), &keys)
                    }
                    4 => {
                        muts.push("redeemscript_is_witscript");
                        witscript.clone()
                    }
                    _ => {
                        muts.push("redeemscript_garbage");
                        garbage_script(rng, &redeemscript)
                    }
                };
            }
            13 => {
                witscript = garbage_script(rng, &witscript);
                muts.push("witscript");
            }
            _ => {
                amount_sat = match rng.below(4) {
                    0 => amount_sat.wrapping_add(1),
                    1 => amount_sat.wrapping_sub(1),
                    2 => amount_sat.wrapping_mul(2),
                    _ => amount_sat.saturating_add(rng.below(20_000)),
                };
                muts.push("htlc_amount");
            }
        }
    }

    // arithmetic boundary: an HTLC amount whose millisatoshi value does not fit in 64 bits, presented with
    // the output value that a wrapped multiplication would yield (workload only; the judgement below is
    // computed in 128 bits from the request alone)
    if amount_sat > u64::MAX / 1000 && !tx.output.is_empty() && rng.bool() {
        let wrapped_sat = amount_sat.wrapping_mul(1000) / 1000;
        let f = if zero_fee { 0 } else { fee };
        tx.output[0].value = Amount::from_sat(wrapped_sat.saturating_sub(f));
        muts.push("output_value_of_wrapped_msat_amount");
    }

    // ---- the reference judgement of the final request ----
    let script_class = classify_htlc_script(&redeemscript, anchors);
    let mut bad: Vec<&'static str> = vec![];
    let mut bad_fee = false;
    match script_class {
        None => bad.push("redeemscript-not-an-htlc-script"),
        Some((s_offered, _)) => {
            if tx.version != Version(2) {
                bad.push("version");
            }
            let lt = tx.lock_time.to_consensus_u32();
            if s_offered && lt == 0 {
                bad.push("timeout-tx-locktime-zero");
            }
            if !s_offered && lt != 0 {
                bad.push("success-tx-locktime-nonzero");
            }
            if tx.input.is_empty() || tx.output.is_empty() {
                bad.push("no-input-or-output");
            } else {
                // without anchors the signature (SIGHASH_ALL) covers the whole transaction: exactly one
                // input and one output; with anchors (SINGLE|ANYONECANPAY) only input 0 / output 0 are covered
                if !anchors && (tx.input.len() != 1 || tx.output.len() != 1) {
                    bad.push("extra-inputs-or-outputs");
                }
                if tx.input[0].sequence.0 != if anchors { 1 } else { 0 } {
                    bad.push("sequence");
                }
                if tx.output[0].script_pubkey != canonical_out_script {
                    bad.push("output-script");
                }
                let out = tx.output[0].value.to_sat();
                if out > amount_sat {
                    bad.push("output-exceeds-htlc-amount");
                } else {
                    let f = amount_sat - out;
                    if zero_fee {
                        if f != 0 {
                            bad_fee = true;
                        }
                    } else if !fee_in_policy_range(f, htlc_tx_weight(s_offered, anchors), env.min_feerate, env.max_feerate) {
                        bad_fee = true;
                    }
                }
            }
        }
    }

    // ---- the call ----
    let node = env.world.node.clone();
    let id = c.id.clone();
    let remote = key_pcp;
    let res = report::catch(|| {
        node.with_channel(&id, |chan| {
            if is_cp {
                chan.sign_counterparty_htlc_tx(&tx, &remote, &redeemscript, amount_sat, &witscript)
            } else {
                chan.sign_holder_htlc_tx(&tx, commit_num, opt_pcp, &redeemscript, amount_sat, &witscript)
            }
        })
    });
    let direct: Answer = match res {
        Err(p) => Err(p),
        Ok(Err(e)) => Ok(Err(e.message().to_string())),
        Ok(Ok(ts)) => Ok(Ok((ts.sig, ts.typ as u8))),
    };
    let mut answers: Vec<(&'static str, String, Value, Answer)> = vec![];
    let direct_panicked = direct.is_err();
    let direct_tag = answer_tag(&direct);
    answers.push(("B", entry.to_string(), Value::Null, direct));

    // ---- the same request as a wire message through the protocol handler ----
    if have_roots && !direct_panicked && rng.below(100) < HANDLER_PCT {
        // SignRemoteHtlcTx (per-channel handler): remote per-commitment point, asserts one input / one output.
        // SignLocalHtlcTx (per-channel) / SignAnyLocalHtlcTx (root, input index + peer id + dbid): the commitment
        // number only - a request with an explicit per-commitment point cannot be expressed.
        let legacy = is_cp || rng.chance(2, 5);
        let name = if is_cp {
            "SignRemoteHtlcTx"
        } else if legacy {
            "SignLocalHtlcTx"
        } else {
            "SignAnyLocalHtlcTx"
        };
        let sure_panic = if is_cp {
            tx.input.len() != 1 || tx.output.len() != 1 // assert_eq! in the handler arm
        } else {
            tx.input.is_empty() || tx.output.is_empty() // psbt.inputs[input] / psbt.outputs[0]
        };
        if !is_cp && opt_pcp.is_some() {
            r.count(&format!("handler.{}.not_sent_explicit_per_commitment_point_not_expressible", name));
        } else if sure_panic && !rng.chance(1, 4) {
            r.count(&format!("handler.{}.not_sent_input_output_count_the_handler_asserts_on", name));
        } else {
            // SignAnyLocalHtlcTx: `input` selects the PSBT input that carries the HTLC amount; the signed input is
            // input 0 of the transaction whatever it says (sign_holder_htlc_tx has no input argument)
            let amount_input = if !is_cp && !legacy && tx.input.len() >= 2 && rng.bool() { 1 } else { 0 };
            if let Some((psbt, pinfo)) =
                request_psbt(rng, &tx, amount_input, amount_sat, &redeemscript, &env.acct.public_key, None, Some(&witscript))
            {
                let (version, root) = rng.pick(&env.roots);
                let option_anchors = if rng.chance(1, 8) { !anchors } else { anchors };
                let wtx = wire_tx(&tx);
                let wpsbt = wire_psbt(psbt);
                let wscript = Octets(redeemscript.to_bytes());
                let msg = if is_cp {
                    WireMessage::SignRemoteHtlcTx(msgs::SignRemoteHtlcTx {
                        tx: wtx, psbt: wpsbt, wscript, remote_per_commitment_point: PubKey(key_pcp.serialize()), option_anchors,
                    })
                } else if legacy {
                    WireMessage::SignLocalHtlcTx(msgs::SignLocalHtlcTx { commitment_number: commit_num, tx: wtx, psbt: wpsbt, wscript, option_anchors })
                } else {
                    WireMessage::SignAnyLocalHtlcTx(msgs::SignAnyLocalHtlcTx {
                        commitment_number: commit_num, tx: wtx, psbt: wpsbt, wscript, option_anchors,
                        input: amount_input as u32, peer_id: PubKey(c.peer), dbid: c.dbid,
                    })
                };
                let hres = if legacy {
                    let h = root.for_new_client(1, PubKey(c.peer), c.dbid);
                    report::catch(|| h.handle(msg))
                } else {
                    report::catch(|| root.handle(msg))
                };
                r.count(&format!("handler.{}.requests", name));
                r.count(&format!("handler.protocol_version_{}.requests", version));
                if let Some(ans) = handler_answer(hres, name, r) {
                    r.count(&format!("handler.{}.{}", name, match &ans { Err(_) => "panic", Ok(Err(_)) => "refused", Ok(Ok(_)) => "ok" }));
                    if amount_input != 0 && ans.as_ref().map(|a| a.is_ok()).unwrap_or(false) {
                        r.count("handler.SignAnyLocalHtlcTx.ok.input_1_named_input_0_signed");
                    }
                    let t = answer_tag(&ans);
                    if t == direct_tag {
                        r.count("handler.B.same_outcome_as_direct_call");
                    } else {
                        // counted, not judged: the verdict on the handler's answer is the oracle's, below
                        r.count(&format!("handler.B.{}.direct_{}_handler_{}", name, direct_tag, t));
                    }
                    let winfo = json!({"message": name, "protocol_version": version, "option_anchors": option_anchors,
                                       "input": amount_input, "peer_id": hex::encode(c.peer), "dbid": c.dbid, "psbt": pinfo});
                    answers.push(("hB", format!("protocol handler: {}", name), winfo, ans));
                }
            } else {
                r.count("handler.psbt_not_built");
            }
        }
    }

    let detail = |entry: &str, wire: &Value, extra: Value| -> Value {
        json!({
            "entry_point": entry,
            "wire_request": wire,
            "replay": cid.json(),
            "env": env.env_json(),
            "channel": c.summary(),
            "tx_hex": serialize_hex(&tx),
            "commitment_number": commit_num,
            "opt_per_commitment_point": opt_pcp.map(|p| p.to_string()),
            "per_commitment_point_used_by_oracle": key_pcp.to_string(),
            "redeemscript_hex": hex::encode(redeemscript.as_bytes()),
            "redeemscript_read_as": script_class.map(|(o, e)| json!({"offered": o, "expiry": e})),
            "htlc_amount_sat": amount_sat.to_string(),
            "output_witscript_hex": hex::encode(witscript.as_bytes()),
            "harness_htlc": {"offered": offered, "cltv_expiry": expiry, "feerate_per_kw": feerate,
                             "commitment_txid": commitment_txid.to_string(), "vout": vout},
            "expected": {"to_self_delay": delay, "revocation_key": rev_key.to_string(), "delayed_key": delayed_key.to_string(),
                         "output_script_hex": hex::encode(canonical_out_script.as_bytes()),
                         "signing_key": sign_key.to_string()},
            "mutations": muts,
            "oracle_clauses_violated": bad,
            "oracle_fee_out_of_range": bad_fee,
            "observed": extra,
        })
    };

    let mut poisoned = None;
    let mut ms = muts.clone();
    ms.sort();
    ms.dedup();
    // the same reference judgement for every way the request reached the signer
    for (p, entry, wire, ans) in answers.iter() {
        let p = *p;
        let outcome;
        r.eval(1);
        r.count(&format!("{}.{}.calls", p, k));
        if muts.is_empty() {
            r.count(&format!("{}.{}.unmutated.calls", p, k));
        }
        match ans {
            Err(pm) => {
                outcome = "panic";
                poisoned = Some(ci);
                r.count(&format!("{}.{}.panic", p, k));
                let short: String = pm.chars().take(60).collect::<String>() + " .. " + pm.rsplit('/').next().unwrap_or("");
                r.set_add(&format!("{}.panics", p), &short);
                r.count(&format!("{}.panic.mutations:{}", p, muts.join("+")));
                if amount_sat > u64::MAX / 1000 {
                    r.count(&format!("{}.panic.htlc_amount_sat_times_1000_overflows_u64", p));
                }
                if tx.output.is_empty() {
                    r.count(&format!("{}.panic.tx_without_outputs", p));
                }
            }
            Ok(Err(e)) => {
                outcome = "refused";
                r.count(&format!("{}.{}.refused", p, k));
                let tag = reason_tag(e);
                r.set_add(&format!("{}.refusal_reasons", p), &tag);
                if bad.is_empty() && !bad_fee && !other_refusal {
                    r.count(&format!("{}.{}.clean.refused", p, k));
                    r.set_add(&format!("{}.clean_refusal_reasons", p), &tag);
                } else if !other_refusal {
                    if bad.len() == 1 && !bad_fee {
                        r.count(&format!("{}.only_bad_{}.refused", p, bad[0]));
                        r.count(&format!("{}.only_one_structure_clause_bad.refused", p));
                    } else if bad.is_empty() && bad_fee {
                        r.count(&format!("{}.only_bad_fee.{}.refused", p, if zero_fee { "zero_fee_channel" } else { "feerate_channel" }));
                    }
                }
                if r.get(&format!("{}.{}.refused", p, k)) <= 1 && cid.shard == 0 {
                    r.sample(detail(entry, wire, json!({"result": "refused", "message": e})));
                }
            }
            Ok(Ok((sig, sighash))) => {
                outcome = "accepted";
                r.count(&format!("{}.{}.accepted", p, k));
                r.count(&format!("{}.{}.accepted.{}", p, k, if anchors { "anchors" } else { "static_remotekey" }));
                r.count(&format!("{}.rule.structure.checked", p));
                r.count(&format!("{}.rule.{}.checked", p, if zero_fee { "zero_fee" } else { "feerate" }));
                r.count(&format!("{}.rule.signature.checked", p));
                if let Some((so, _)) = script_class {
                    r.count(&format!("{}.accepted.{}", p, if so { "timeout_tx" } else { "success_tx" }));
                }
                if !muts.is_empty() {
                    r.count(&format!("{}.accepted.mutated", p));
                    for m in &muts {
                        r.count(&format!("{}.accepted.with_mutation.{}", p, m));
                    }
                }
                if tx.input.len() > 1 || tx.output.len() > 1 {
                    r.count(&format!("{}.accepted.anchors_extra_inputs_or_outputs_not_covered_by_sighash", p));
                }
                if bad.is_empty() && !bad_fee {
                    r.count(&format!("{}.{}.clean.accepted", p, k));
                }
                if !bad.is_empty() {
                    r.violation("c09:htlc-tx-accepted-noncanonical", detail(entry, wire, json!({"result": "signed", "clauses": bad})));
                }
                if bad_fee {
                    // a separate signature for the one shape where amount_sat * 1000 does not fit in u64, so
                    // that any other way of getting an out-of-range fee signed keeps its own signature
                    let sig_name = if amount_sat > u64::MAX / 1000 {
                        "c09:htlc-tx-accepted-bad-feerate-amount-msat-overflows-u64"
                    } else {
                        "c09:htlc-tx-accepted-bad-feerate"
                    };
                    let out = tx.output.get(0).map(|o| o.value.to_sat()).unwrap_or(0);
                    r.violation(
                        sig_name,
                        detail(entry, wire, json!({"result": "signed", "implied_fee_sat": (amount_sat as u128 - out.min(amount_sat) as u128).to_string(),
                                      "zero_fee_htlc_channel": zero_fee, "signature": sig.to_string()})),
                    );
                }
                let want_ty = if anchors { EcdsaSighashType::SinglePlusAnyoneCanPay } else { EcdsaSighashType::All };
                if *sighash != want_ty as u8 {
                    r.violation(
                        "c09:htlc-tx-wrong-sighash-type",
                        detail(entry, wire, json!({"result": "signed", "sighash_type": format!("0x{:02x}", sighash), "expected": format!("{:?}", want_ty)})),
                    );
                }
                match p2wsh_sighash(&tx, 0, &redeemscript, amount_sat, want_ty) {
                    Some(msg) =>
                        if secp.verify_ecdsa(&msg, sig, &sign_key).is_ok() {
                            r.count(&format!("{}.{}.signature_verified", p, k));
                        } else {
                            r.violation(
                                "c09:signature-does-not-verify",
                                detail(entry, wire, json!({"result": "signed", "signature": sig.to_string(), "sighash_type": format!("0x{:02x}", sighash)})),
                            );
                        },
                    None => r.inconclusive("harness: could not compute the sighash of an accepted HTLC tx"),
                }
                if r.get(&format!("{}.{}.accepted", p, k)) <= 1 && cid.shard == 0 {
                    r.sample(detail(entry, wire, json!({"result": "signed", "signature": sig.to_string(), "sighash_type": format!("0x{:02x}", sighash)})));
                }
            }
        }
        r.distinct_hash(fnv_str(&format!(
            "{}:{}:{}:{:?}:{}:{:?}:{}:{:?}",
            p, k, anchors, script_class.map(|s| s.0), outcome, bad, bad_fee, ms
        )));
    }
    for b in &bad {
        r.count(&format!("B.gen.bad_{}", b));
    }
    if bad_fee {
        r.count("B.gen.bad_fee");
    }
    poisoned
}

// ---------------------------------------------------------------------------------------------

fn main() {
    let cli = Cli::parse("C09");
    report::install_quiet_panic_hook();
    let start = Instant::now();
    let quick = cli.tier.is_quick();
    let shards = if quick { 16 } else { 64 };
    let worlds = cli.scaled(if quick { 2 } else { 4 });
    let a_cases = if quick { 650 } else { 1500 };
    let b_cases = if quick { 450 } else { 1000 };
    let mut report = run_sharded("C09", cli.threads, shards, |shard, r| {
        r.max_samples = 10;
        let mut rng = Rng::new(cli.seed.wrapping_mul(1_000_003).wrapping_add(shard as u64));
        for w in 0..worlds {
            let mut env = match Env::new(&mut rng, r) {
                Ok(e) => e,
                Err(e) => {
                    r.inconclusive(&format!("harness: world setup failed: {}", e));
                    return;
                }
            };
            r.count("world.created");
            r.set_add("world.start_height", &env.height.to_string());
            let total = a_cases + b_cases;
            for i in 0..total {
                env.maybe_churn(&mut rng, r);
                let cid = CaseId { seed: cli.seed, shard, world: w, case: i };
                // interleave the two parts so that both see the same heights / allowlist changes
                let poisoned = if rng.below(total) < a_cases {
                    sweep_case(&mut env, &mut rng, r, &cid)
                } else {
                    htlc_tx_case(&mut env, &mut rng, r, &cid)
                };
                if let Some(ci) = poisoned {
                    // a panic inside with_channel poisons the channel's slot mutex: every later request
                    // on it panics too.  Replace the channel by a fresh one of the same type.
                    r.count("world.channel_replaced_after_panic");
                    if let Err(e) = env.replace_channel(&mut rng, r, ci) {
                        r.inconclusive(&format!("harness: channel replacement failed: {}", e));
                        break;
                    }
                }
            }
            r.set_add("world.end_height", &env.height.to_string());
        }
    });

    // a run that did not fire every rule's antecedent, or did not reach the refusing side of every
    // clause, is inconclusive
    for k in ["delayed", "cp_htlc", "justice"] {
        report.require(&format!("A.{}.accepted", k), 300);
        report.require(&format!("A.{}.signature_verified", k), 300);
        report.require(&format!("A.{}.accepted.multi_output", k), 50);
        report.require(&format!("A.{}.refused", k), 300);
        for cl in ["version", "locktime", "sequence", "output"] {
            report.require(&format!("A.{}.only_bad_{}.refused", k, cl), 10);
        }
    }
    report.require("A.cp_htlc.only_bad_redeemscript.refused", 10);
    report.require("A.accepted.signed_input_not_0", 50);
    report.require("A.accepted.locktime_justified_by_expiry_only", 20);
    report.require("A.accepted.output_class.WalletAtPath", 100);
    report.require("A.accepted.output_class.AllowScript", 50);
    report.require("A.accepted.output_class.XpubChildAtPath", 50);
    report.require("world.blocks_added", 50);
    for k in ["holder", "counterparty"] {
        report.require(&format!("B.{}.accepted", k), 300);
        report.require(&format!("B.{}.accepted.anchors", k), 100);
        report.require(&format!("B.{}.accepted.static_remotekey", k), 100);
        report.require(&format!("B.{}.signature_verified", k), 300);
        report.require(&format!("B.{}.refused", k), 300);
    }
    report.require("B.accepted.timeout_tx", 100);
    report.require("B.accepted.success_tx", 100);
    report.require("B.rule.feerate.checked", 100);
    report.require("B.rule.zero_fee.checked", 100);
    report.require("B.only_one_structure_clause_bad.refused", 200);
    for cl in ["version", "sequence", "output-script", "timeout-tx-locktime-zero", "success-tx-locktime-nonzero", "redeemscript-not-an-htlc-script"] {
        report.require(&format!("B.only_bad_{}.refused", cl), 5);
    }
    report.require("B.only_bad_fee.feerate_channel.refused", 50);
    report.require("B.only_bad_fee.zero_fee_channel.refused", 20);
    // the protocol-handler entry: every message really sent, answered both ways, and judged by the same rules
    for m in [
        "SignAnyDelayedPaymentToUs", "SignDelayedPaymentToUs", "SignAnyRemoteHtlcToUs", "SignRemoteHtlcToUs",
        "SignAnyPenaltyToUs", "SignPenaltyToUs", "SignRemoteHtlcTx", "SignLocalHtlcTx", "SignAnyLocalHtlcTx",
    ] {
        report.require(&format!("handler.{}.ok", m), 50);
        report.require(&format!("handler.{}.refused", m), 50);
    }
    for v in PROTOCOL_VERSIONS {
        report.require(&format!("handler.protocol_version_{}.requests", v), 500);
    }
    for k in ["delayed", "cp_htlc", "justice"] {
        report.require(&format!("hA.{}.accepted", k), 300);
        report.require(&format!("hA.{}.signature_verified", k), 300);
        report.require(&format!("hA.{}.accepted.multi_output", k), 50);
        report.require(&format!("hA.{}.refused", k), 300);
    }
    for cl in ["version", "locktime", "sequence", "output"] {
        report.require(&format!("hA.any.only_bad_{}.refused", cl), 10);
    }
    report.require("hA.accepted.signed_input_not_0", 50);
    report.require("hA.accepted.output_class.WalletAtPath", 100);
    for k in ["holder", "counterparty"] {
        report.require(&format!("hB.{}.accepted", k), 200);
        report.require(&format!("hB.{}.signature_verified", k), 200);
        report.require(&format!("hB.{}.refused", k), 200);
    }
    report.require("hB.only_one_structure_clause_bad.refused", 100);
    report.require("selfcheck.hand_built_htlc_tx_equals_ldk", 1000);
    report.require("selfcheck.htlc_template_matches_ldk_script", 500);
    report.require("dest.upfront_shutdown_script.removed_from_allowlist", 20);

    finish(
        report,
        FinishSpec {
            cli: &cli,
            level: "exploration",
            rule: "generated sweeps (sign_delayed_sweep / sign_counterparty_htlc_sweep / sign_justice_sweep: 1-3 inputs, 0-3 outputs from {wallet at supplied/other path p2wpkh|p2sh-p2wpkh|p2tr, allowlisted script, allowlisted-xpub child, removed allowlist entry, foreign-xpub child, unknown}, versions, locktimes around height+2 / HTLC expiry / 5e8, sequences around the contest delay and {0,1,fffffffd,ffffffff}, offered/received/garbage HTLC scripts) and canonical-then-mutated BOLT-3 HTLC transactions (sign_holder_htlc_tx / sign_counterparty_htlc_tx) on StaticRemoteKey and AnchorsZeroFeeHtlc channels, regtest and testnet worlds, growing chain, changing allowlists; oracle on Ok = clauses of the property (every output wallet-derivable or allowlisted; version 2; locktime <= height+2(+1 slack) or already-past time or <= expiry of the presented received-HTLC script; sequence of input 0 or of the signed input in the kind's set; HTLC tx equal to the BOLT-3 tx rebuilt here from basepoints with fee in policy range / zero; signature verifies under the key derived here). Every request is judged the same way when it is also sent (35% of the cases) as a wire message through the protocol handler: SignAnyDelayedPaymentToUs / SignAnyRemoteHtlcToUs / SignAnyPenaltyToUs (root handler, input index + peer id + dbid), SignDelayedPaymentToUs / SignRemoteHtlcToUs / SignPenaltyToUs (per-channel handler, input 0), SignRemoteHtlcTx, SignLocalHtlcTx / SignAnyLocalHtlcTx, protocol versions 4, 5, 6; tx + PSBT (spent amount in inputs[input].witness_utxo with different amounts on the other inputs, wallet path as bip32 derivation / taproot key origin of output 0 with other paths on the other outputs, HTLC-tx output witness script in outputs[0], the PSBT's inner tx differing from the outer one in a third of the requests); the reply's sighash byte is part of the signature check. distinct = (entry point, anchors, outcome, clause pattern, locktime class, input/output shape, output classes, script kind / mutation set)",
            assumptions: vec![
                "rust-bitcoin sighash/serialization, libsecp256k1 and LDK get_htlc_redeemscript are trusted (shared with the code under test)".into(),
                "lenient readings, as stated in DESIGN.md: sequence judged on input 0 OR the signed input; an output derivable from the wallet at a path other than the supplied one counts as wallet-derivable; one block of slack on the locktime bound; time-based locktimes count as in-bound when already past; 0xfffffffe is tolerated next to {0,fffffffd,ffffffff}".into(),
                "sweep fee is not judged (policy-sweep-fee-range is documented as not implemented and the property does not state it); a sweep with zero outputs is only counted".into(),
                "with anchors the HTLC signature is SINGLE|ANYONECANPAY: extra inputs/outputs beyond index 0 are not part of the signed message and are only counted".into(),
                "sign_holder_htlc_tx_phase2 is out of scope (property text)".into(),
                "protocol handler entry: handler panics on malformed requests (no outputs: wallet_paths[0]; input index beyond the PSBT inputs; SignRemoteHtlcTx assert_eq on one input / one output) are counted, the channel is replaced, nothing is judged; most such requests are not sent. SignLocalHtlcTx / SignAnyLocalHtlcTx cannot carry an explicit per-commitment point: those cases are not sent. SignAnyLocalHtlcTx's input index only selects the PSBT input carrying the amount (the signed input is input 0). SignHtlcTxMingle is an alias of SignWithdrawal in the handler (wallet inputs only, no HTLC signature): not a C09 request, not sent. A wrong wallet-path hint can only turn an acceptance into a refusal, which this one-directional oracle does not judge".into(),
            ],
            start,
            extra_coverage: Default::default(),
        },
    );
}
