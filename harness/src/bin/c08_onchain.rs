//! C08 — on-chain spends lose at most a bounded fee and fund only validated channels.
//!
//! Transactions are built from a ground-truth table: every output is BY CONSTRUCTION one of
//! wallet (address derived from the node's account xpub at the supplied path), allowlisted script,
//! child of an allowlisted xpub, funding output of a channel the harness set up for exactly this
//! txid:vout ("good": outbound, push 0, exact value, 2-of-2 p2wsh script, initial holder commitment
//! counter-signed and validated), a near-miss funding output, or unknown.  The monitors watch
//! `Node::check_onchain_tx` and `Approve::handle_proposed_onchain` and judge every acceptance
//! against the table in u128 arithmetic.
//!
//! The oracle never re-derives what the signer computes: classes are known from how the harness
//! built the output, the fee is `sum(prev_out values) - sum(output values)` and the weight bound
//! is a deliberately generous over-estimate of any signed weight.

use lightning_signer::bitcoin::absolute::LockTime;
use lightning_signer::bitcoin::bip32::{ChildNumber, DerivationPath, Xpriv, Xpub};
use lightning_signer::bitcoin::consensus::encode::serialize_hex;
use lightning_signer::bitcoin::hashes::Hash;
use lightning_signer::bitcoin::key::UntweakedPublicKey;
use lightning_signer::bitcoin::secp256k1::{All, PublicKey, Secp256k1, SecretKey};
use lightning_signer::bitcoin::transaction::Version;
use lightning_signer::bitcoin::{
    Address, Amount, CompressedPublicKey, Network, NetworkKind, OutPoint, ScriptBuf, Sequence,
    Transaction, TxIn, TxOut, Txid, Witness,
};
use lightning_signer::bitcoin::psbt::Psbt;
use lightning_signer::bitcoin::{BlockHash, PubkeyHash, WPubkeyHash};
use lightning_signer::channel::{ChannelId, ChannelSetup, CommitmentType};
use lightning_signer::invoice::Invoice;
use lightning_signer::lightning::ln::chan_utils::{make_funding_redeemscript, ChannelPublicKeys};
use lightning_signer::lightning::ln::channel_keys::{
    DelayedPaymentBasepoint, HtlcBasepoint, RevocationBasepoint, RevocationKey,
};
use lightning_signer::lightning::types::payment::PaymentHash;
use lightning_signer::policy::error::ValidationErrorKind;
use lightning_signer::signer::derive::KeyDerivationStyle;
use lightning_signer::util::test_utils::{
    channel_commitment, counterparty_sign_holder_commitment, funding_tx_setup_channel,
    make_test_funding_channel_outpoint, test_chan_ctx_with_push_val, validate_holder_commitment,
    TestChannelContext, TestNodeContext,
};
use lightning_signer::util::velocity::{VelocityControlIntervalType, VelocityControlSpec};
use lightning_signer::SendSync;
use serde_json::{json, Value};
use std::collections::BTreeSet;
use std::sync::{Arc, Mutex};
use std::time::Instant;
use vls_protocol::model::{Bip32KeyVersion, CloseInfo, PubKey, Utxo};
use vls_protocol::msgs::{self, Message};
use vls_protocol::psbt::StreamedPSBT;
use vls_protocol::serde_bolt::{Array, Octets, WithSize};
use vls_protocol_signer::approver::{Approve, NegativeApprover, PositiveApprover};
use vls_protocol_signer::handler::{Error as HandlerError, Handler, InitHandler, RootHandler};
use vls_verif::report::{self, finish, run_sharded, FinishSpec};
use vls_verif::world::{World, WorldCfg};
use vls_verif::{Cli, Report, Rng};

// ---------------------------------------------------------------------------------------------
// ground truth
// ---------------------------------------------------------------------------------------------

#[derive(Clone, Copy, PartialEq, Eq, Debug)]
enum Cls {
    /// wallet address at the supplied path (p2wpkh / p2sh-p2wpkh / p2tr)
    Wallet,
    /// a wallet address, but the supplied path is another index (still owned; tolerated, counted)
    WalletWrongPath,
    /// a foreign key's address with a plausible non-empty path: unknown by construction
    ForeignWithPath,
    /// script added to the allowlist as an address
    AllowScript,
    /// child of an allowlisted xpub with the right path
    XpubChild,
    /// funding output of a harness channel, good class
    FundGood,
    FundValuePlus,
    FundValueMinus,
    FundWrongScript,
    FundInbound,
    FundPush,
    FundUnvalidated,
    /// push of 1..999 msat (rounds to 0 sat): tolerated (loss < 1 sat), counted only
    FundPushSubsat,
    /// anything else, no path
    Unknown,
}

impl Cls {
    fn name(&self) -> &'static str {
        match self {
            Cls::Wallet => "wallet",
            Cls::WalletWrongPath => "wallet-wrong-path",
            Cls::ForeignWithPath => "foreign-with-path",
            Cls::AllowScript => "allowlisted-script",
            Cls::XpubChild => "allowlisted-xpub-child",
            Cls::FundGood => "funding-good",
            Cls::FundValuePlus => "value-plus-1",
            Cls::FundValueMinus => "value-minus-1",
            Cls::FundWrongScript => "wrong-script",
            Cls::FundInbound => "inbound-channel",
            Cls::FundPush => "push-nonzero",
            Cls::FundUnvalidated => "initial-commitment-not-validated",
            Cls::FundPushSubsat => "funding-push-subsat",
            Cls::Unknown => "unknown",
        }
    }
    fn is_funding(&self) -> bool {
        matches!(
            self,
            Cls::FundGood
                | Cls::FundValuePlus
                | Cls::FundValueMinus
                | Cls::FundWrongScript
                | Cls::FundInbound
                | Cls::FundPush
                | Cls::FundUnvalidated
                | Cls::FundPushSubsat
        )
    }
    fn is_bad_funding(&self) -> bool {
        self.is_funding() && !matches!(self, Cls::FundGood | Cls::FundPushSubsat)
    }
    fn is_unknown(&self) -> bool {
        matches!(self, Cls::Unknown | Cls::ForeignWithPath)
    }
}

struct Out {
    cls: Cls,
    sub: String,
    txout: TxOut,
    opath: DerivationPath,
    chan: Option<usize>,
}

struct PendingChan {
    ctx: TestChannelContext,
    vout: usize,
    /// vout the channel is set up with (differs from `vout` for the "other-vout" unknown kind)
    setup_vout: usize,
    validate: bool,
    validated: bool,
    setup_ok: bool,
}

#[derive(Clone, Copy, PartialEq, Eq, Debug)]
enum InKind {
    P2wpkh,
    P2shP2wpkh,
    P2tr,
    P2pkh,
    P2wshUck,
    Garbage,
}

impl InKind {
    fn name(&self) -> &'static str {
        match self {
            InKind::P2wpkh => "p2wpkh",
            InKind::P2shP2wpkh => "p2sh-p2wpkh",
            InKind::P2tr => "p2tr",
            InKind::P2pkh => "p2pkh(non-segwit)",
            InKind::P2wshUck => "p2wsh+uck",
            InKind::Garbage => "foreign",
        }
    }
}

struct Case {
    scenario: &'static str,
    fee_target: &'static str,
    outs: Vec<Out>,
    chans: Vec<PendingChan>,
    in_kinds: Vec<InKind>,
    prev_outs: Vec<TxOut>,
    flags: Vec<bool>,
    ucks: Vec<Option<(SecretKey, Vec<Vec<u8>>)>>,
    tx: Transaction,
    opaths: Vec<DerivationPath>,
    /// what goes over the protocol when the case is sent through the handler (SignWithdrawal / SignHtlcTxMingle)
    wire: Option<Wire>,
}

/// The parts of a request that exist only on the wire.  `flags` of such a case are the ground truth of what the
/// signer may take as known-segwit: the input's transaction is streamed along AND the spent output is segwit by
/// construction (p2wpkh, p2tr, p2wsh, p2sh-p2wpkh).
struct Wire {
    /// the previous transaction of every input: `in_txs[i].output[tx.input[i].previous_output.vout] == prev_outs[i]`
    in_txs: Vec<Transaction>,
    /// the previous transaction is carried as `non_witness_utxo`
    supplied: Vec<bool>,
    /// wallet key index of the input (the utxo entry's `keyindex`); None: no utxo entry, the input is not ours to sign
    keyindex: Vec<Option<u32>>,
    /// the p2wpkh script nested in a p2sh-p2wpkh input (PSBT `redeem_script`)
    nested: Vec<Option<ScriptBuf>>,
    /// inputs spent with a unilateral-close key: the commitment point of the utxo's close_info
    close: Vec<Option<Option<PublicKey>>>,
}

/// a Ready channel addressed the way the protocol addresses channels (peer id + dbid), whose unilateral-close keys
/// the wire cases spend from
struct CloseChan {
    peer_id: [u8; 33],
    dbid: u64,
    channel_id: ChannelId,
    anchors: bool,
}

// ---------------------------------------------------------------------------------------------
// sliding-window oracle for the fee velocity (u128 amounts, as c12_velocity::Window)
// ---------------------------------------------------------------------------------------------

struct Window {
    accepted: Vec<(u64, u128, bool)>,
    limit: u64,
    window: u64,
}

impl Window {
    fn new(limit: u64, bucket: u64, nbuckets: u64) -> Window {
        Window { accepted: vec![], limit, window: (nbuckets - 1) * bucket }
    }
    /// returns Some((sum, any_via_approver)) when the closed window [t-window, t] exceeds the limit
    fn accept(&mut self, t: u64, a: u128, via_approver: bool) -> Option<(u128, bool)> {
        self.accepted.push((t, a, via_approver));
        let lo = t.saturating_sub(self.window);
        let inside = self.accepted.iter().filter(|(ti, _, _)| *ti >= lo && *ti <= t);
        let mut sum = 0u128;
        let mut any = false;
        for (_, a, v) in inside {
            sum += *a;
            any |= *v;
        }
        if self.accepted.len() > 2048 {
            self.accepted.retain(|(ti, _, _)| *ti >= lo);
        }
        if sum > self.limit as u128 {
            Some((sum, any))
        } else {
            None
        }
    }
}

// ---------------------------------------------------------------------------------------------
// approver that records what it was asked
// ---------------------------------------------------------------------------------------------

struct RecApprover {
    answer: bool,
    asked: Mutex<Vec<Vec<usize>>>,
}
impl SendSync for RecApprover {}
impl Approve for RecApprover {
    fn approve_invoice(&self, _invoice: &Invoice) -> bool {
        false
    }
    fn approve_keysend(&self, _payment_hash: PaymentHash, _amount_msat: u64) -> bool {
        false
    }
    fn approve_onchain(&self, _tx: &Transaction, _prev_outs: &[TxOut], unknown_indices: &[usize]) -> bool {
        self.asked.lock().unwrap().push(unknown_indices.to_vec());
        self.answer
    }
}

// ---------------------------------------------------------------------------------------------
// world context
// ---------------------------------------------------------------------------------------------

#[derive(Clone, Copy, Debug)]
enum Vel {
    Unlimited,
    Limited { limit: u64, bucket: u64, nb: u64 },
}

struct Ctx {
    world: World,
    node_ctx: TestNodeContext,
    secp: Secp256k1<All>,
    account_xpub: Xpub,
    network: Network,
    native: bool,
    allow_scripts: Vec<ScriptBuf>,
    /// scripts that were on the allowlist and have been removed again: unknown destinations from then on
    removed_scripts: Vec<ScriptBuf>,
    /// the world's policy filter demotes "policy-onchain-no-channel-push" to a warning: funding an outbound
    /// channel with a push is then allowed by configuration, but the pushed value is money given away and
    /// counts towards the fee bound
    push_waived: bool,
    xpubs: Vec<Xpub>,
    allow_strings: Vec<String>,
    next_chan: usize,
    chans_made: usize,
    chan_budget: usize,
    max_feerate: u32,
    min_feerate: u32,
    max_chan_size: u64,
    vel: Vel,
    vel_name: String,
    window: Option<Window>,
    cfg_json: Value,
    /// None: not tried yet; Some(None): could not be set up
    close_chan: Option<Option<CloseChan>>,
}

fn rand_key(rng: &mut Rng) -> SecretKey {
    loop {
        if let Ok(k) = SecretKey::from_slice(&rng.bytes::<32>()) {
            return k;
        }
    }
}

fn rand_pubkey(rng: &mut Rng, secp: &Secp256k1<All>) -> PublicKey {
    PublicKey::from_secret_key(secp, &rand_key(rng))
}

fn key_script(secp: &Secp256k1<All>, pk: &PublicKey, kind: &str, network: Network) -> ScriptBuf {
    let cpk = CompressedPublicKey(*pk);
    match kind {
        "p2wpkh" => Address::p2wpkh(&cpk, network).script_pubkey(),
        "p2sh-p2wpkh" => Address::p2shwpkh(&cpk, network).script_pubkey(),
        "p2pkh" => Address::p2pkh(&cpk, network).script_pubkey(),
        "p2tr" => Address::p2tr(secp, UntweakedPublicKey::from(*pk), None, network).script_pubkey(),
        _ => panic!("harness: bad script kind {}", kind),
    }
}

fn new_ctx(rng: &mut Rng) -> Ctx {
    let seed = rng.bytes::<32>();
    let mut cfg = WorldCfg::regtest(seed);
    let native = !rng.chance(1, 4);
    cfg.style = if native { KeyDerivationStyle::Native } else { KeyDerivationStyle::Ldk };
    let max_feerate = *rng.pick(&[1000u32, 5000, 25_000, 333_333, 333_333, 2_000_000]);
    cfg.policy.max_feerate_per_kw = max_feerate;
    cfg.policy.dev_flags = None;
    let max_chan_size = *rng.pick(&[1_000_000_001u64, 1_000_000_001, 16_777_216, 10_000_000_000_000]);
    cfg.policy.max_channel_size_sat = max_chan_size;
    let (vel, vel_name, spec) = match rng.weighted(&[25, 15, 30, 30]) {
        0 => (Vel::Unlimited, "unlimited".to_string(), VelocityControlSpec::UNLIMITED),
        1 => {
            let hourly = rng.bool();
            let limit = 1_000_000_000_000_000_000u64;
            (
                Vel::Limited { limit, bucket: if hourly { 300 } else { 3600 }, nb: if hourly { 12 } else { 24 } },
                format!("generous-{}", if hourly { "hourly" } else { "daily" }),
                VelocityControlSpec {
                    limit_msat: limit,
                    interval_type: if hourly { VelocityControlIntervalType::Hourly } else { VelocityControlIntervalType::Daily },
                },
            )
        }
        2 => (
            Vel::Limited { limit: 1_000_000_000, bucket: 3600, nb: 24 },
            "default-daily".to_string(),
            VelocityControlSpec { limit_msat: 1_000_000_000, interval_type: VelocityControlIntervalType::Daily },
        ),
        _ => {
            let hourly = rng.bool();
            let limit = rng.range(2_000_000, 200_000_000);
            (
                Vel::Limited { limit, bucket: if hourly { 300 } else { 3600 }, nb: if hourly { 12 } else { 24 } },
                format!("tight-{}", if hourly { "hourly" } else { "daily" }),
                VelocityControlSpec {
                    limit_msat: limit,
                    interval_type: if hourly { VelocityControlIntervalType::Hourly } else { VelocityControlIntervalType::Daily },
                },
            )
        }
    };
    cfg.policy.fee_velocity_control = spec;
    let min_feerate = cfg.policy.min_feerate_per_kw;
    let push_waived = rng.chance(1, 5);
    if push_waived {
        use lightning_signer::policy::filter::{FilterRule, PolicyFilter};
        cfg.policy.filter = PolicyFilter { rules: vec![FilterRule::new_warn("policy-onchain-no-channel-push")] };
    }
    let world = World::new(cfg);
    let secp = Secp256k1::new();
    let node = world.node.clone();
    let network = Network::Regtest;
    let account_xpub = node.get_account_extended_pubkey();
    let node_ctx = TestNodeContext { node: node.clone(), secp_ctx: Secp256k1::signing_only() };

    // allowlist: scripts and xpubs
    let mut allow_scripts = vec![];
    let mut xpubs = vec![];
    let mut allow_strings = vec![];
    for _ in 0..rng.below(4) {
        let pk = rand_pubkey(rng, &secp);
        let script = match rng.below(6) {
            0 => key_script(&secp, &pk, "p2wpkh", network),
            1 => key_script(&secp, &pk, "p2sh-p2wpkh", network),
            2 => key_script(&secp, &pk, "p2pkh", network),
            3 => key_script(&secp, &pk, "p2tr", network),
            _ => {
                let other = rand_pubkey(rng, &secp);
                Address::p2wsh(&make_funding_redeemscript(&pk, &other), network).script_pubkey()
            }
        };
        let addr = Address::from_script(&script, network).expect("harness: address from script");
        let s = if rng.bool() { format!("address:{}", addr) } else { format!("{}", addr) };
        allow_strings.push(s);
        allow_scripts.push(script);
    }
    for _ in 0..rng.below(3) {
        let xpriv = Xpriv::new_master(NetworkKind::Test, &rng.bytes::<32>()).expect("harness: xpriv");
        let xpub = Xpub::from_priv(&secp, &xpriv);
        allow_strings.push(format!("xpub:{}", xpub));
        xpubs.push(xpub);
    }
    if !allow_strings.is_empty() {
        node.add_allowlist(&allow_strings).expect("harness: add_allowlist");
    }
    let window = match vel {
        Vel::Unlimited => None,
        Vel::Limited { limit, bucket, nb } => Some(Window::new(limit, bucket, nb)),
    };
    let cfg_json = json!({
        "node_seed": hex::encode(seed),
        "style": if native { "native" } else { "ldk" },
        "max_feerate_per_kw": max_feerate,
        "max_channel_size_sat": max_chan_size,
        "fee_velocity": format!("{:?}", vel),
        "allowlist": allow_strings,
        "start_time": world.now(),
    });
    Ctx {
        removed_scripts: vec![],
        push_waived,
        world,
        node_ctx,
        secp,
        account_xpub,
        network,
        native,
        allow_scripts,
        xpubs,
        allow_strings,
        next_chan: 1,
        chans_made: 0,
        chan_budget: 24,
        max_feerate,
        min_feerate,
        max_chan_size,
        vel,
        vel_name,
        window,
        cfg_json,
        close_chan: None,
    }
}

fn gen_path(rng: &mut Rng, native: bool) -> DerivationPath {
    let len = if native { 1 } else { 1 + rng.usize(3) };
    let mut v = vec![];
    for _ in 0..len {
        let i = match rng.below(4) {
            0 => rng.below(8) as u32,
            1 => rng.below(1000) as u32,
            2 => 0x7fff_ffff - rng.below(3) as u32,
            _ => rng.below(0x8000_0000) as u32,
        };
        v.push(ChildNumber::from_normal_idx(i).expect("harness: normal idx"));
    }
    v.into()
}

fn xpub_child_script(ctx: &Ctx, xpub: &Xpub, path: &DerivationPath, kind: &str) -> ScriptBuf {
    let pk = xpub.derive_pub(&ctx.secp, path).expect("harness: derive_pub").public_key;
    key_script(&ctx.secp, &pk, kind, ctx.network)
}

fn gen_value(rng: &mut Rng) -> u64 {
    match rng.below(16) {
        0 => 0,
        1 => 1,
        2 => 546,
        3 => rng.range(100_000_000, 10_000_000_000),
        4 => rng.range(1, 1000),
        _ => rng.range(546, 5_000_000),
    }
}

fn gen_huge(rng: &mut Rng) -> u64 {
    match rng.below(7) {
        0 => u64::MAX,
        1 => u64::MAX - rng.below(100_000),
        2 => 1u64 << 63,
        3 => (1u64 << 63) - 1 - rng.below(100_000),
        4 => 2_100_000_000_000_000,
        5 => rng.range(1u64 << 60, 1u64 << 62),
        _ => 18_446_744_073_709_552 + rng.below(1_000_000), // ~ 2^64/1000
    }
}

/// commitment fee that lands inside [min_feerate, max_feerate] for the expected weight
fn commit_fee(ctx: &Ctx, anchors: bool) -> u64 {
    let weight: u64 = if anchors { 1124 } else { 724 };
    let f = ((ctx.min_feerate as u64 + ctx.max_feerate as u64) / 2).min(1500).max(ctx.min_feerate as u64 + 20);
    weight * f / 1000
}

fn validate_initial_commitment(ctx: &Ctx, chan: &TestChannelContext) -> Result<(), String> {
    let anchors = chan.setup.is_anchors();
    let fee = commit_fee(ctx, anchors);
    let push_sat = chan.setup.push_value_msat / 1000;
    let v = chan.setup.channel_value_sat;
    if v < fee + push_sat + 1000 {
        return Err("channel too small".into());
    }
    let (to_b, to_c) =
        if chan.setup.is_outbound { (v - fee - push_sat, push_sat) } else { (push_sat, v - fee - push_sat) };
    let node_ctx = &ctx.node_ctx;
    let res = report::catch(|| {
        let mut cctx = channel_commitment(node_ctx, chan, 0, 0, to_b, to_c, vec![], vec![]);
        let (csig, hsigs) = counterparty_sign_holder_commitment(node_ctx, chan, &mut cctx);
        validate_holder_commitment(node_ctx, chan, &cctx, &csig, &hsigs)
    });
    match res {
        Ok(Ok(_)) => Ok(()),
        Ok(Err(e)) => Err(format!("{:?}", e).chars().take(160).collect()),
        Err(p) => Err(format!("panic: {}", p)),
    }
}

const BENEFICIAL: [Cls; 4] = [Cls::Wallet, Cls::AllowScript, Cls::XpubChild, Cls::FundGood];
const BAD: [Cls; 11] = [
    Cls::Unknown,
    Cls::ForeignWithPath,
    Cls::WalletWrongPath,
    Cls::FundValuePlus,
    Cls::FundValueMinus,
    Cls::FundWrongScript,
    Cls::FundInbound,
    Cls::FundPush,
    Cls::FundUnvalidated,
    Cls::FundPushSubsat,
    Cls::Unknown,
];

fn pick_beneficial(ctx: &Ctx, rng: &mut Rng, funding_ok: bool) -> Cls {
    loop {
        let c = BENEFICIAL[rng.weighted(&[50, 15, 15, 20])];
        match c {
            Cls::AllowScript if ctx.allow_scripts.is_empty() => continue,
            Cls::XpubChild if ctx.xpubs.is_empty() => continue,
            Cls::FundGood if !funding_ok => continue,
            _ => return c,
        }
    }
}

fn pick_bad(rng: &mut Rng, funding_ok: bool) -> Cls {
    loop {
        let c = BAD[rng.weighted(&[20, 8, 4, 9, 9, 9, 9, 9, 9, 3, 11])];
        if c.is_funding() && !funding_ok {
            continue;
        }
        return c;
    }
}

/// Build one output of the given class.  `huge` selects overflow-candidate values.
fn build_out(ctx: &mut Ctx, rng: &mut Rng, cls: Cls, huge: bool, chans: &mut Vec<PendingChan>, index: usize) -> Out {
    let value = if huge { gen_huge(rng) } else { gen_value(rng) };
    let network = ctx.network;
    let empty: DerivationPath = DerivationPath::master();
    match cls {
        Cls::Wallet => {
            let path = gen_path(rng, ctx.native);
            let kind = *rng.pick(&["p2wpkh", "p2wpkh", "p2sh-p2wpkh", "p2tr"]);
            let script = xpub_child_script(ctx, &ctx.account_xpub.clone(), &path, kind);
            Out { cls, sub: kind.into(), txout: TxOut { value: Amount::from_sat(value), script_pubkey: script }, opath: path, chan: None }
        }
        Cls::WalletWrongPath => {
            let path = gen_path(rng, ctx.native);
            let mut other = gen_path(rng, ctx.native);
            if other == path {
                other = vec![ChildNumber::from_normal_idx(12345).unwrap()].into();
                if other == path {
                    other = vec![ChildNumber::from_normal_idx(12346).unwrap()].into();
                }
            }
            let kind = *rng.pick(&["p2wpkh", "p2sh-p2wpkh", "p2tr"]);
            let script = xpub_child_script(ctx, &ctx.account_xpub.clone(), &path, kind);
            Out { cls, sub: kind.into(), txout: TxOut { value: Amount::from_sat(value), script_pubkey: script }, opath: other, chan: None }
        }
        Cls::ForeignWithPath => {
            let path = gen_path(rng, ctx.native);
            let pk = rand_pubkey(rng, &ctx.secp);
            let kind = *rng.pick(&["p2wpkh", "p2sh-p2wpkh", "p2tr", "p2pkh"]);
            let script = key_script(&ctx.secp, &pk, kind, network);
            Out { cls, sub: kind.into(), txout: TxOut { value: Amount::from_sat(value), script_pubkey: script }, opath: path, chan: None }
        }
        Cls::AllowScript => {
            let script = rng.pick(&ctx.allow_scripts).clone();
            Out { cls, sub: "script".into(), txout: TxOut { value: Amount::from_sat(value), script_pubkey: script }, opath: empty, chan: None }
        }
        Cls::XpubChild => {
            let xpub = *rng.pick(&ctx.xpubs);
            let path = gen_path(rng, ctx.native);
            let kind = *rng.pick(&["p2wpkh", "p2wpkh", "p2pkh", "p2tr"]);
            let script = xpub_child_script(ctx, &xpub, &path, kind);
            Out { cls, sub: kind.into(), txout: TxOut { value: Amount::from_sat(value), script_pubkey: script }, opath: path, chan: None }
        }
        Cls::Unknown => {
            let (sub, script): (&str, ScriptBuf) = match if !ctx.removed_scripts.is_empty() && rng.chance(1, 3) { 6 } else { rng.below(6) } {
                6 => ("removed-allowlist-entry", rng.pick(&ctx.removed_scripts).clone()),
                0 => {
                    // a wallet address, but no path: the signer cannot know
                    let path = gen_path(rng, ctx.native);
                    ("wallet-address-without-path", xpub_child_script(ctx, &ctx.account_xpub.clone(), &path, "p2wpkh"))
                }
                1 if !ctx.xpubs.is_empty() => {
                    let xpub = *rng.pick(&ctx.xpubs);
                    let path = gen_path(rng, ctx.native);
                    ("xpub-child-without-path", xpub_child_script(ctx, &xpub, &path, "p2wpkh"))
                }
                2 => {
                    let a = rand_pubkey(rng, &ctx.secp);
                    let b = rand_pubkey(rng, &ctx.secp);
                    ("foreign-2of2-p2wsh", Address::p2wsh(&make_funding_redeemscript(&a, &b), network).script_pubkey())
                }
                3 => {
                    let pk = rand_pubkey(rng, &ctx.secp);
                    ("foreign-p2tr", key_script(&ctx.secp, &pk, "p2tr", network))
                }
                _ => {
                    let pk = rand_pubkey(rng, &ctx.secp);
                    ("foreign-p2wpkh", key_script(&ctx.secp, &pk, "p2wpkh", network))
                }
            };
            Out { cls, sub: sub.into(), txout: TxOut { value: Amount::from_sat(value), script_pubkey: script }, opath: empty, chan: None }
        }
        _ => {
            // funding classes
            let max_v = ctx.max_chan_size.min(if huge { u64::MAX } else { 2_000_000_000 });
            let chan_value = match rng.below(8) {
                0 => max_v,
                1 => rng.range(20_000, 100_000).min(max_v),
                _ => rng.range(100_000, max_v.max(100_001)).min(max_v),
            };
            let push_msat = match cls {
                Cls::FundPush => match rng.below(8) {
                    0 => 1000,
                    1 | 2 => rng.range(1_000_000, (chan_value / 2) * 1000),
                    _ => rng.range(1000, 10_000) * 1000 + rng.below(1000),
                }
                .min((chan_value / 2) * 1000),
                Cls::FundPushSubsat => rng.range(1, 999),
                Cls::FundInbound if rng.bool() => rng.range(1000, (chan_value / 4).max(1001)) * 1000,
                _ => 0,
            };
            let nn = ctx.next_chan;
            ctx.next_chan += 1;
            ctx.chans_made += 1;
            let mut cctx = test_chan_ctx_with_push_val(&ctx.node_ctx, nn, chan_value, push_msat);
            if cls == Cls::FundInbound {
                cctx.setup.is_outbound = false;
            }
            if rng.chance(1, 4) && ctx.max_feerate >= 5000 {
                cctx.setup.commitment_type = CommitmentType::AnchorsZeroFeeHtlc;
            }
            let out_value = match cls {
                Cls::FundValuePlus => chan_value + 1,
                Cls::FundValueMinus => chan_value - 1,
                _ => chan_value,
            };
            let mut txout = make_test_funding_channel_outpoint(&ctx.node_ctx.node, &cctx.setup, &cctx.channel_id, out_value);
            let mut sub = format!("{:?}", cctx.setup.commitment_type);
            if cls == Cls::FundWrongScript {
                let (s, script) = match rng.below(3) {
                    0 => {
                        let a = rand_pubkey(rng, &ctx.secp);
                        let b = rand_pubkey(rng, &ctx.secp);
                        ("foreign-2of2", Address::p2wsh(&make_funding_redeemscript(&a, &b), network).script_pubkey())
                    }
                    1 => {
                        // right holder key, wrong counterparty key
                        let b = rand_pubkey(rng, &ctx.secp);
                        let mut setup2 = cctx.setup.clone();
                        setup2.counterparty_points.funding_pubkey = b;
                        (
                            "holder-key-with-other-counterparty-key",
                            make_test_funding_channel_outpoint(&ctx.node_ctx.node, &setup2, &cctx.channel_id, out_value).script_pubkey,
                        )
                    }
                    _ => {
                        let pk = rand_pubkey(rng, &ctx.secp);
                        ("p2wpkh", key_script(&ctx.secp, &pk, "p2wpkh", network))
                    }
                };
                sub = s.into();
                txout.script_pubkey = script;
            }
            chans.push(PendingChan {
                ctx: cctx,
                vout: index,
                setup_vout: index,
                validate: cls != Cls::FundUnvalidated,
                validated: false,
                setup_ok: false,
            });
            Out { cls, sub, txout, opath: empty, chan: Some(chans.len() - 1) }
        }
    }
}

/// a wallet-owned previous output; over the protocol an input's key is named by ONE index (utxo.keyindex)
fn wallet_prev_script(ctx: &Ctx, rng: &mut Rng, kind: &str, wire: bool) -> (ScriptBuf, DerivationPath) {
    let path = gen_path(rng, ctx.native || wire);
    (xpub_child_script(ctx, &ctx.account_xpub, &path, kind), path)
}

/// Set up (once per world) the channel whose unilateral-close outputs the wire cases spend.
fn ensure_close_chan(ctx: &mut Ctx, rng: &mut Rng, r: &mut Report) {
    if ctx.close_chan.is_some() {
        return;
    }
    let peer_id = rand_pubkey(rng, &ctx.secp).serialize();
    let dbid = 1_000_000 + rng.below(1000);
    let anchors = rng.chance(1, 3);
    let secp = &ctx.secp;
    let setup = ChannelSetup {
        is_outbound: rng.bool(),
        channel_value_sat: rng.range(100_000, 16_000_000),
        push_value_msat: 0,
        funding_outpoint: OutPoint { txid: Txid::from_byte_array(rng.bytes::<32>()), vout: rng.below(3) as u32 },
        holder_selected_contest_delay: *rng.pick(&[6u16, 144, 2016]),
        holder_shutdown_script: None,
        counterparty_points: ChannelPublicKeys {
            funding_pubkey: rand_pubkey(rng, secp),
            revocation_basepoint: RevocationBasepoint(rand_pubkey(rng, secp)),
            payment_point: rand_pubkey(rng, secp),
            delayed_payment_basepoint: DelayedPaymentBasepoint(rand_pubkey(rng, secp)),
            htlc_basepoint: HtlcBasepoint(rand_pubkey(rng, secp)),
        },
        counterparty_selected_contest_delay: *rng.pick(&[6u16, 7, 144, 1000]),
        counterparty_shutdown_script: None,
        commitment_type: if anchors { CommitmentType::AnchorsZeroFeeHtlc } else { CommitmentType::StaticRemoteKey },
    };
    let node = ctx.world.node.clone();
    let res = report::catch(|| -> Result<ChannelId, String> {
        let (id, _) = node.new_channel(dbid, &peer_id, &node).map_err(|e| format!("new_channel: {:?}", e))?;
        node.setup_channel(id.clone(), None, setup, &DerivationPath::master()).map_err(|e| format!("setup_channel: {:?}", e))?;
        Ok(id)
    });
    ctx.close_chan = Some(match res {
        Ok(Ok(channel_id)) => {
            r.count("harness.close_channel_set_up");
            Some(CloseChan { peer_id, dbid, channel_id, anchors })
        }
        other => {
            r.count("harness.close_channel_failed");
            r.note(&format!("close channel could not be set up: {:?}", other).chars().take(200).collect::<String>());
            None
        }
    });
}

/// An input that spends a unilateral-close output of the close channel: the previous script, the key and witness
/// stack suffix (what the handler will derive from the utxo's close_info; used here to BUILD the spent output and
/// for the oracle's weight bound) and the commitment point that goes into close_info.
fn close_input(
    ctx: &mut Ctx,
    rng: &mut Rng,
    r: &mut Report,
) -> Option<(ScriptBuf, (SecretKey, Vec<Vec<u8>>), Option<PublicKey>)> {
    ensure_close_chan(ctx, rng, r);
    let (channel_id, anchors) = match ctx.close_chan.as_ref() {
        Some(Some(cc)) => (cc.channel_id.clone(), cc.anchors),
        _ => return None,
    };
    // with a commitment point: the delayed to-local output (p2wsh); without: the to-remote output (p2wpkh, or
    // p2wsh with anchors)
    let cp = if rng.bool() { Some(rand_pubkey(rng, &ctx.secp)) } else { None };
    let node = ctx.world.node.clone();
    let secp = ctx.secp.clone();
    let res = report::catch(|| {
        node.with_channel(&channel_id, |chan| {
            let rev = cp
                .as_ref()
                .map(|p| RevocationKey::from_basepoint(&secp, &chan.counterparty_pubkeys().revocation_basepoint, p));
            chan.get_unilateral_close_key(&cp, &rev)
        })
    });
    match res {
        Ok(Ok((key, stack))) => {
            let last = stack.last()?.clone();
            let script = if cp.is_none() && !anchors {
                let pk = PublicKey::from_slice(&last).ok()?;
                key_script(&ctx.secp, &pk, "p2wpkh", ctx.network)
            } else {
                Address::p2wsh(&ScriptBuf::from_bytes(last), ctx.network).script_pubkey()
            };
            r.count(if cp.is_some() { "wire.close_input.to_local_delayed" } else if anchors { "wire.close_input.to_remote_anchors" } else { "wire.close_input.to_remote_p2wpkh" });
            Some((script, (key, stack), cp))
        }
        _ => {
            r.count("harness.close_key_unavailable");
            None
        }
    }
}

/// weight the way check_onchain_tx estimates it (used only to AIM the generator, never to judge)
fn aim_weight(tx: &Transaction, in_kinds: &[InKind], ucks: &[Option<(SecretKey, Vec<Vec<u8>>)>]) -> u128 {
    let mut w = tx.weight().to_wu() as u128;
    for (i, k) in in_kinds.iter().enumerate() {
        if *k == InKind::Garbage {
            continue;
        }
        let wit: usize = match &ucks[i] {
            Some((_, stack)) => stack.iter().map(|v| 1 + v.len()).sum(),
            None => 33,
        };
        w += (2 + 1 + 1 + 72 + 1 + wit) as u128;
    }
    w
}

/// deliberately generous upper bound of any signed weight (oracle side)
fn weight_upper_bound(tx: &Transaction, ucks: &[Option<(SecretKey, Vec<Vec<u8>>)>]) -> u128 {
    let mut w = tx.weight().to_wu() as u128 + 16;
    for i in 0..tx.input.len() {
        let stack: usize = match ucks.get(i) {
            Some(Some((_, stack))) => stack.iter().map(|v| 1 + v.len()).sum(),
            _ => 0,
        };
        w += 450 + stack as u128;
    }
    w
}

fn gen_case(ctx: &mut Ctx, rng: &mut Rng, r: &mut Report, wire: bool) -> Case {
    let funding_ok = ctx.chans_made + 3 <= ctx.chan_budget;
    let scenario = ["legit", "one-bad-output", "fee-defect", "nonsegwit-funding", "extreme", "random", "e10-alias"]
        [rng.weighted(&[34, 24, 14, 5, 7, 8, 8])];
    let scenario = if scenario == "nonsegwit-funding" && !funding_ok { "legit" } else { scenario };
    let huge = scenario == "extreme" && rng.chance(2, 3);

    // ---- classes
    let mut classes: Vec<Cls> = vec![];
    match scenario {
        "random" => {
            for _ in 0..rng.range(0, 5) {
                let c = if rng.chance(2, 3) { pick_beneficial(ctx, rng, funding_ok) } else { pick_bad(rng, funding_ok) };
                classes.push(c);
            }
        }
        "e10-alias" => {
            for _ in 0..rng.range(1, 2) {
                classes.push(Cls::Wallet);
            }
        }
        _ => {
            let n = match rng.below(10) {
                0 | 1 | 2 => 1,
                3 | 4 | 5 => 2,
                6 | 7 => 3,
                8 => 4,
                _ => 5,
            };
            for _ in 0..n {
                classes.push(pick_beneficial(ctx, rng, funding_ok && !huge));
            }
            if scenario == "nonsegwit-funding" && !classes.contains(&Cls::FundGood) {
                classes[0] = Cls::FundGood;
            }
            if scenario == "one-bad-output" {
                let bad = pick_bad(rng, funding_ok);
                let pos = rng.usize(classes.len() + 1);
                if rng.chance(1, 5) {
                    // the bad output alone
                    classes = vec![bad];
                } else {
                    classes.insert(pos, bad);
                }
            }
        }
    }
    // at most 3 channels per tx
    let mut nf = 0;
    for c in classes.iter_mut() {
        if c.is_funding() {
            nf += 1;
            if nf > 3 {
                *c = Cls::Wallet;
            }
        }
    }

    // ---- outputs
    let mut chans: Vec<PendingChan> = vec![];
    let mut outs: Vec<Out> = vec![];
    for (i, c) in classes.iter().enumerate() {
        let o = build_out(ctx, rng, *c, huge && !c.is_funding(), &mut chans, i);
        outs.push(o);
    }
    // unknown kind: a good, validated channel whose funding_outpoint names ANOTHER vout of this tx
    if scenario == "one-bad-output" && outs.len() >= 2 && rng.chance(1, 12) {
        if let Some(pos) = outs.iter().position(|o| o.cls == Cls::FundGood) {
            let other = (pos + 1 + rng.usize(outs.len() - 1)) % outs.len();
            if !outs[other].cls.is_funding() {
                outs[pos].cls = Cls::Unknown;
                outs[pos].sub = "funding-script-of-channel-set-up-for-another-vout".into();
                let ci = outs[pos].chan.take().unwrap();
                chans[ci].setup_vout = other;
            }
        }
    }
    let any_funding = outs.iter().any(|o| o.cls.is_funding());

    // ---- inputs
    let n_in = 1 + rng.usize(4);
    let mut in_kinds = vec![];
    let allow_nonsegwit = !any_funding || scenario == "random" || scenario == "extreme";
    // over the protocol the signer takes only witness programs whose transaction is streamed along as known-segwit:
    // nested-segwit and foreign inputs would make every funding case a refusal there, so they are rarer in them
    let w_nested = if wire && any_funding { 3 } else { 14 };
    let w_foreign = if wire && !allow_nonsegwit { 0 } else { 4 };
    for _ in 0..n_in {
        let k = [InKind::P2wpkh, InKind::P2shP2wpkh, InKind::P2tr, InKind::P2wshUck, InKind::Garbage, InKind::P2pkh]
            [rng.weighted(&[50, w_nested, 14, 8, w_foreign, if allow_nonsegwit { 10 } else { 0 }])];
        in_kinds.push(k);
    }
    // wire cases: which inputs have their transaction streamed along (non_witness_utxo)
    let mut supplied = vec![true; n_in];
    if wire && allow_nonsegwit {
        for s in supplied.iter_mut() {
            *s = rng.chance(3, 4);
        }
    }
    if scenario == "nonsegwit-funding" {
        let i = rng.usize(n_in);
        if wire && rng.bool() {
            // the defect is a segwit input whose transaction is NOT streamed along: not known to be segwit
            in_kinds[i] = *rng.pick(&[InKind::P2wpkh, InKind::P2tr]);
            supplied[i] = false;
        } else {
            in_kinds[i] = InKind::P2pkh;
        }
    }
    if scenario == "e10-alias" {
        for k in in_kinds.iter_mut() {
            if *k == InKind::P2pkh || *k == InKind::Garbage {
                *k = InKind::P2wpkh;
            }
        }
    }
    let mut inputs = vec![];
    let mut prev_scripts = vec![];
    let mut flags = vec![];
    let mut ucks: Vec<Option<(SecretKey, Vec<Vec<u8>>)>> = vec![];
    let mut keyindex: Vec<Option<u32>> = vec![];
    let mut nested: Vec<Option<ScriptBuf>> = vec![];
    let mut close: Vec<Option<Option<PublicKey>>> = vec![];
    for ki in 0..n_in {
        inputs.push(TxIn {
            previous_output: OutPoint { txid: Txid::from_byte_array(rng.bytes::<32>()), vout: rng.below(4) as u32 },
            script_sig: ScriptBuf::new(),
            sequence: *rng.pick(&[Sequence::ZERO, Sequence::MAX, Sequence::ENABLE_RBF_NO_LOCKTIME]),
            witness: Witness::default(),
        });
        let mut k = in_kinds[ki];
        let mut close_in = None;
        if wire && k == InKind::P2wshUck {
            // over the protocol a unilateral-close key comes from a channel named by the utxo's close_info
            close_in = close_input(ctx, rng, r);
            if close_in.is_none() {
                k = InKind::P2wpkh;
                in_kinds[ki] = k;
            }
        }
        let wallet_kind = match k {
            InKind::P2wpkh => Some(("p2wpkh", true)),
            InKind::P2shP2wpkh => Some(("p2sh-p2wpkh", true)),
            InKind::P2tr => Some(("p2tr", true)),
            InKind::P2pkh => Some(("p2pkh", false)),
            _ => None,
        };
        let mut kx = None;
        let mut nest = None;
        let mut cl = None;
        let (script, flag, uck) = match k {
            InKind::P2wpkh | InKind::P2shP2wpkh | InKind::P2tr | InKind::P2pkh => {
                let (kind, flag) = wallet_kind.unwrap();
                let (script, path) = wallet_prev_script(ctx, rng, kind, wire);
                if wire {
                    if path.len() == 1 && !rng.chance(1, 10) {
                        kx = Some(u32::from(path[0]));
                    }
                    if k == InKind::P2shP2wpkh {
                        nest = Some(xpub_child_script(ctx, &ctx.account_xpub, &path, "p2wpkh"));
                    }
                }
                (script, flag, None)
            }
            InKind::P2wshUck if wire => {
                let (script, uck, cp) = close_in.unwrap();
                cl = Some(cp);
                (script, true, Some(uck))
            }
            InKind::P2wshUck => {
                let a = rand_pubkey(rng, &ctx.secp);
                let b = rand_pubkey(rng, &ctx.secp);
                let script = Address::p2wsh(&make_funding_redeemscript(&a, &b), ctx.network).script_pubkey();
                let stack = vec![vec![1u8; rng.usize(2)], vec![0u8; 40 + rng.usize(80)]];
                (script, true, Some((rand_key(rng), stack)))
            }
            InKind::Garbage => {
                let glen = 1 + rng.usize(30);
                let script = ScriptBuf::from_bytes(rng.vec(glen));
                // make sure it is not accidentally a recognised template (nor, on the wire, any witness program)
                let script = if script.is_p2pkh()
                    || script.is_p2sh()
                    || script.is_p2wpkh()
                    || script.is_p2wsh()
                    || script.is_p2tr()
                    || script.is_witness_program()
                {
                    ScriptBuf::from_bytes(vec![0x6a, 0x01, 0x00])
                } else {
                    script
                };
                // the direct API is TOLD the flag (assumption: truthfully, taken as segwit); on the wire a foreign
                // non-witness-program output is not segwit
                (script, !wire, None)
            }
        };
        prev_scripts.push(script);
        flags.push(if wire { flag && supplied[ki] } else { flag });
        ucks.push(uck);
        keyindex.push(kx);
        nested.push(nest);
        close.push(cl);
    }

    let version = if rng.chance(1, 60) { *rng.pick(&[Version::ONE, Version(3), Version(0)]) } else { Version::TWO };
    let lock_time = if rng.bool() { LockTime::ZERO } else { LockTime::from_consensus(rng.below(800_000) as u32) };
    let mut tx = Transaction {
        version,
        lock_time,
        input: inputs,
        output: outs.iter().map(|o| o.txout.clone()).collect(),
    };

    // ---- fee target and input values
    let w_aim = aim_weight(&tx, &in_kinds, &ucks);
    let w_ub = weight_upper_bound(&tx, &ucks);
    let maxf = ctx.max_feerate as u128;
    let legal_max: u128 = ((maxf + 1) * w_aim).saturating_sub(1000) / 1000;
    let bound_ub: u128 = (maxf + 1) * w_ub / 1000 + 1;
    let sum_out: u128 = outs.iter().map(|o| o.txout.value.to_sat() as u128).sum();
    let alias_unit: u128 = ((1u128 << 32) * w_aim + 999) / 1000;
    let wrap_unit: u128 = ((1u128 << 64) + 999) / 1000;
    let small_legal = |rng: &mut Rng| -> u128 { rng.range(0, legal_max.min(5000) as u64) as u128 };
    let fee_target: &'static str = match scenario {
        "fee-defect" => ["bound+1", "over-by-output", "over-xN", "alias", "wrap", "negative", "at-bound"]
            [rng.weighted(&[20, 25, 15, 12, 8, 12, 8])],
        "e10-alias" => "alias",
        "extreme" => ["legal-small", "legal", "wrap", "alias", "negative", "free-inputs"][rng.weighted(&[30, 10, 15, 10, 10, 25])],
        "random" => ["legal-small", "legal", "bound+1", "over-xN", "negative", "zero"][rng.weighted(&[40, 20, 10, 10, 10, 10])],
        _ => ["legal-small", "legal", "zero", "at-bound"][rng.weighted(&[60, 25, 8, 7])],
    };
    let fee: i128 = match fee_target {
        "zero" => 0,
        "legal-small" => small_legal(rng) as i128,
        "legal" => rng.range(0, legal_max.min(u64::MAX as u128) as u64) as i128,
        "at-bound" => legal_max as i128,
        "bound+1" => (bound_ub + 1 + rng.below(1000) as u128) as i128,
        "over-by-output" => {
            // the fee has the magnitude of one of the outputs (as if one output were mis-attributed)
            let v = if outs.is_empty() { 100_000 } else { rng.pick(&outs).txout.value.to_sat() as u128 };
            (v.min(1u128 << 62) + bound_ub + 1 + small_legal(rng)) as i128
        }
        "over-xN" => (bound_ub * rng.range(2, 1000) as u128 + 1) as i128,
        "alias" => (alias_unit * rng.range(1, 3) as u128 + small_legal(rng)) as i128,
        "wrap" => (wrap_unit * rng.range(1, 3) as u128 + small_legal(rng)) as i128,
        "negative" => -(rng.range(1, (sum_out.min(1u128 << 40) as u64).max(1)) as i128),
        _ => 0, // free-inputs: values chosen independently below
    };
    let mut values: Vec<u64> = vec![];
    if fee_target == "free-inputs" {
        for _ in 0..n_in {
            values.push(if rng.chance(2, 3) { gen_huge(rng) } else { gen_value(rng) });
        }
    } else {
        let total: u128 = (sum_out as i128 + fee).max(0) as u128;
        // split into n_in parts
        let mut rest = total;
        for i in 0..n_in {
            let part: u128 = if i + 1 == n_in {
                rest
            } else {
                match rng.below(4) {
                    0 => 0,
                    1 => rest / 2,
                    _ => {
                        let cap = rest.min(u64::MAX as u128) as u64;
                        rng.range(0, cap) as u128
                    }
                }
            };
            let part = part.min(u64::MAX as u128);
            values.push(part as u64);
            rest -= part;
        }
        rng.shuffle(&mut values);
    }
    let prev_outs: Vec<TxOut> = values
        .iter()
        .zip(prev_scripts.into_iter())
        .map(|(v, s)| TxOut { value: Amount::from_sat(*v), script_pubkey: s })
        .collect();

    // ---- wire cases: the inputs' previous transactions exist BEFORE the txid is fixed (the spending transaction
    // names them by txid, and the funding outpoints the channels are set up for below depend on the final txid)
    let wire_info = if wire {
        let mut in_txs = vec![];
        for i in 0..n_in {
            let witness_prog = matches!(in_kinds[i], InKind::P2wpkh | InKind::P2tr | InKind::P2wshUck);
            let vout = rng.usize(3);
            let n_out = vout + 1 + rng.usize(2);
            let mut pouts = vec![];
            for j in 0..n_out {
                if j == vout {
                    pouts.push(prev_outs[i].clone());
                } else {
                    // decoys of the other kind and another value: a signer looking at the wrong output is noticed
                    let script = if witness_prog {
                        ScriptBuf::new_p2pkh(&PubkeyHash::from_byte_array(rng.bytes::<20>()))
                    } else {
                        ScriptBuf::new_p2wpkh(&WPubkeyHash::from_byte_array(rng.bytes::<20>()))
                    };
                    pouts.push(TxOut { value: Amount::from_sat(gen_value(rng)), script_pubkey: script });
                }
            }
            let in_tx = Transaction {
                version: Version::TWO,
                lock_time: LockTime::ZERO,
                input: vec![TxIn {
                    previous_output: OutPoint { txid: Txid::from_byte_array(rng.bytes::<32>()), vout: rng.below(3) as u32 },
                    script_sig: ScriptBuf::new(),
                    sequence: Sequence::MAX,
                    witness: Witness::default(),
                }],
                output: pouts,
            };
            tx.input[i].previous_output = OutPoint { txid: in_tx.compute_txid(), vout: vout as u32 };
            in_txs.push(in_tx);
        }
        Some(Wire { in_txs, supplied, keyindex, nested, close })
    } else {
        None
    };

    // ---- set up the channels for exactly this txid
    for pc in chans.iter_mut() {
        let node_ctx = &ctx.node_ctx;
        let vout = pc.setup_vout as u32;
        let res = report::catch(|| funding_tx_setup_channel(node_ctx, &mut pc.ctx, &tx, vout));
        match res {
            Ok(None) => pc.setup_ok = true,
            Ok(Some(st)) => {
                r.count("harness.setup_channel_refused");
                r.set_add("harness_setup_channel_refusals", &format!("{:?}", st).chars().take(120).collect::<String>());
            }
            Err(p) => {
                r.count("harness.setup_channel_panic");
                r.note(&format!("setup_channel panicked: {}", p));
            }
        }
    }
    for i in 0..chans.len() {
        if chans[i].setup_ok && chans[i].validate {
            match validate_initial_commitment(ctx, &chans[i].ctx) {
                Ok(()) => chans[i].validated = true,
                Err(e) => {
                    r.count("harness.initial_commitment_refused");
                    r.set_add("harness_initial_commitment_refusals", &squash_digits(&e));
                }
            }
        }
    }
    // channels that stay without a counter-signed initial commitment: half of them see a hostile attempt first -
    // the initial commitment is presented with a signature that does not verify (refused), and the node then asks
    // to activate it anyway (refused); the channel must still count as "initial commitment not validated"
    for i in 0..chans.len() {
        if chans[i].setup_ok && !chans[i].validate && rng.bool() {
            let chan = &chans[i].ctx;
            let anchors = chan.setup.is_anchors();
            let fee = commit_fee(ctx, anchors);
            let push_sat = chan.setup.push_value_msat / 1000;
            let v = chan.setup.channel_value_sat;
            if v < fee + push_sat + 1000 {
                continue;
            }
            let (to_b, to_c) = if chan.setup.is_outbound { (v - fee - push_sat, push_sat) } else { (push_sat, v - fee - push_sat) };
            let node_ctx = &ctx.node_ctx;
            let bad_key = rand_key(rng);
            let res = report::catch(|| {
                let mut cctx = channel_commitment(node_ctx, chan, 0, 0, to_b, to_c, vec![], vec![]);
                let (_csig, hsigs) = counterparty_sign_holder_commitment(node_ctx, chan, &mut cctx);
                let bad = ctx.secp.sign_ecdsa(&lightning_signer::bitcoin::secp256k1::Message::from_digest([0x42; 32]), &bad_key);
                let first = validate_holder_commitment(node_ctx, chan, &cctx, &bad, &hsigs).is_ok();
                let second = node_ctx.node.with_channel(&chan.channel_id, |c| c.activate_initial_commitment()).is_ok();
                (first, second)
            });
            match res {
                Ok((false, false)) => r.count("hostile_initial_commitment.bad_signature_refused_and_activation_refused"),
                Ok((a, b)) => r.count(&format!("hostile_initial_commitment.validate_accepted={}.activation_accepted={}", a, b)),
                Err(p) => {
                    r.count("hostile_initial_commitment.panic");
                    r.set_add("panics", &p.chars().take(120).collect::<String>());
                }
            }
        }
    }
    // reclassify outputs whose channel could not be brought into the intended state
    for o in outs.iter_mut() {
        if let Some(ci) = o.chan {
            let pc = &chans[ci];
            if !pc.setup_ok {
                // no Ready channel has this outpoint: by construction the output is unknown
                o.cls = Cls::Unknown;
                o.sub = "funding-script-of-stub-channel".into();
            } else if pc.validate && !pc.validated {
                if o.cls == Cls::FundGood || o.cls == Cls::FundPushSubsat {
                    o.cls = Cls::FundUnvalidated;
                }
                // other near-miss classes keep their name: they are near-misses either way
            }
        }
    }

    let opaths = outs.iter().map(|o| o.opath.clone()).collect();
    Case { scenario, fee_target, outs, chans, in_kinds, prev_outs, flags, ucks, tx, opaths, wire: wire_info }
}

fn case_json(ctx: &Ctx, case: &Case) -> Value {
    json!({
        "world": ctx.cfg_json,
        "now": ctx.world.now(),
        "scenario": case.scenario,
        "fee_target": case.fee_target,
        "tx_hex": serialize_hex(&case.tx),
        "txid": case.tx.compute_txid().to_string(),
        "outputs_[index,class,kind,value_sat,script_hex,opath]": case.outs.iter().enumerate().map(|(i, o)| json!([
            i, o.cls.name(), o.sub, o.txout.value.to_sat().to_string(), hex::encode(o.txout.script_pubkey.as_bytes()), o.opath.to_string()
        ])).collect::<Vec<_>>(),
        "inputs_[kind,segwit_flag,value_sat,prev_script_hex,uck_stack_lens]": case.in_kinds.iter().enumerate().map(|(i, k)| json!([
            k.name(), case.flags[i], case.prev_outs[i].value.to_sat().to_string(), hex::encode(case.prev_outs[i].script_pubkey.as_bytes()),
            case.ucks[i].as_ref().map(|(_, s)| s.iter().map(|v| v.len()).collect::<Vec<_>>())
        ])).collect::<Vec<_>>(),
        "wire_inputs_[prev_txid:vout,tx_streamed(non_witness_utxo),utxo_keyindex,close_info_commitment_point]": case.wire.as_ref().map(|w| (0..case.tx.input.len()).map(|i| json!([
            case.tx.input[i].previous_output.to_string(), w.supplied[i], w.keyindex[i],
            w.close[i].as_ref().map(|cp| cp.map(|p| p.to_string()).unwrap_or_else(|| "none".into()))
        ])).collect::<Vec<_>>()),
        "channels": case.chans.iter().map(|c| json!({
            "channel_id": hex::encode(c.ctx.channel_id.inner()),
            "tx_vout": c.vout, "setup_vout": c.setup_vout,
            "channel_value_sat": c.ctx.setup.channel_value_sat, "push_value_msat": c.ctx.setup.push_value_msat,
            "is_outbound": c.ctx.setup.is_outbound, "commitment_type": format!("{:?}", c.ctx.setup.commitment_type),
            "setup_ok": c.setup_ok, "initial_commitment_validated": c.validated,
        })).collect::<Vec<_>>(),
    })
}

struct Judged {
    class_violation: bool,
    fee_flagged: bool,
    fee: i128,
}

/// The oracle for an acceptance.  `approved` = the indices the approver approved (None for a direct
/// check_onchain_tx Ok or an approver path in which the approver was not consulted).
fn judge_accept(
    ctx: &mut Ctx,
    case: &Case,
    r: &mut Report,
    entry: &str,
    approved: Option<&BTreeSet<usize>>,
    detail: &dyn Fn(Value) -> Value,
) -> Judged {
    let empty = BTreeSet::new();
    let appr = approved.unwrap_or(&empty);
    let via_approver = approved.map(|a| !a.is_empty()).unwrap_or(false);
    let mut class_violation = false;
    r.count("ante.accepted");
    for (i, o) in case.outs.iter().enumerate() {
        r.count(&format!("class.{}.in_accepted_tx", o.cls.name()));
        if appr.contains(&i) {
            r.count(&format!("class.{}.explicitly_approved", o.cls.name()));
            continue;
        }
        if o.cls.is_unknown() {
            class_violation = true;
            r.violation(
                "c08:accepted-unknown-destination",
                detail(json!({"entry": entry, "output_index": i, "class": o.cls.name(), "kind": o.sub,
                              "why": "output is unknown by construction and was not explicitly approved"})),
            );
        } else if o.cls == Cls::FundPush && ctx.push_waived {
            r.count("push_waived.funding_with_push_accepted");
        } else if o.cls.is_bad_funding() {
            class_violation = true;
            r.violation(
                &format!("c08:accepted-bad-funding-output:{}", o.cls.name()),
                detail(json!({"entry": entry, "output_index": i, "class": o.cls.name(), "kind": o.sub})),
            );
        } else if o.cls == Cls::WalletWrongPath {
            r.count("tolerated.wallet_wrong_path_accepted");
            r.note("a wallet address with a wrong path was accepted (still wallet-owned: tolerated, counted)");
        } else if o.cls == Cls::FundPushSubsat {
            r.count("tolerated.funding_push_subsat_accepted");
        }
    }
    let funds_channel = case.outs.iter().enumerate().any(|(i, o)| o.cls.is_funding() && !appr.contains(&i));
    if funds_channel {
        r.count("ante.accepted_funding_tx");
        if case.outs.iter().any(|o| o.cls == Cls::FundGood) {
            r.count("ante.accepted_good_funding");
        }
        if case.flags.iter().any(|f| !*f) {
            r.violation(
                "c08:accepted-nonsegwit-input-when-funding",
                detail(json!({"entry": entry, "segwit_flags": case.flags})),
            );
        }
    }
    if case.chans.len() >= 2 && funds_channel {
        r.count("ante.accepted_multi_channel_funding");
    }

    // fee: everything not flagged above is beneficial or explicitly approved, so the non-beneficial
    // value is sum(inputs) - sum(outputs)
    let sum_in: u128 = case.prev_outs.iter().map(|o| o.value.to_sat() as u128).sum();
    let sum_out: u128 = case.outs.iter().map(|o| o.txout.value.to_sat() as u128).sum();
    let mut fee: i128 = sum_in as i128 - sum_out as i128;
    if ctx.push_waived {
        // value pushed to the counterparty in accepted funding outputs is not value the node keeps
        for (i, o) in case.outs.iter().enumerate() {
            if o.cls == Cls::FundPush && !appr.contains(&i) {
                if let Some(ci) = o.chan {
                    fee += (case.chans[ci].ctx.setup.push_value_msat / 1000) as i128;
                }
            }
        }
    }
    let mut fee_flagged = false;
    if !class_violation {
        r.count(if via_approver { "observed.approved_unknown_tx_accepted" } else { "ante.fee_bound_checked" });
        let w_ub = weight_upper_bound(&case.tx, &case.ucks);
        let w_min = case.tx.weight().to_wu() as u128;
        let bound: u128 = (ctx.max_feerate as u128 + 1) * w_ub / 1000 + 1;
        let nums = json!({"entry": entry, "sum_inputs": sum_in.to_string(), "sum_outputs": sum_out.to_string(),
                          "fee_sat": fee.to_string(), "max_feerate_per_kw": ctx.max_feerate,
                          "generous_weight_upper_bound": w_ub.to_string(), "fee_bound_sat": bound.to_string(),
                          "approved_unknown_indices": appr.iter().collect::<Vec<_>>()});
        if fee < 0 {
            if via_approver {
                r.count("tolerated.approved_unknown_with_inputs_below_outputs");
            } else {
                fee_flagged = true;
                r.violation("c08:accepted-inputs-below-beneficial-outputs", detail(nums));
            }
        } else if fee as u128 > bound {
            if via_approver {
                // Explicit approval covers the whole transaction (the approver is shown tx and
                // prev_outs), so the fee of an approved transaction is outside the property: the
                // code returns UnknownDestinations before its fee checks.  Observed, not judged.
                r.count("observed.approved_unknown_tx_fee_over_bound");
                r.note("handle_proposed_onchain: a tx with approved unknown outputs is not fee-rate checked nor entered into the fee velocity control (UnknownDestinations is returned before both); counted under observed.approved_unknown_*, not judged");
            } else {
                let f = fee as u128;
                let sig = if f * 1000 + 999 >= (1u128 << 64) {
                    // fee * 1000 does not fit u64
                    "c08:accepted-excess-fee:fee-msat-over-u64"
                } else if (f * 1000) / w_min.max(1) >= (1u128 << 32) {
                    // at the unsigned tx weight (a lower bound of any weight) the fee rate does not fit u32
                    "c08:accepted-excess-fee:feerate-over-u32"
                } else {
                    "c08:accepted-excess-fee"
                };
                fee_flagged = true;
                r.violation(sig, detail(nums));
            }
        } else if !via_approver {
            r.count("ante.fee_within_bound");
        }
        // velocity
        if via_approver {
            // not entered into the fee velocity control by the code, not judged (see above)
            r.count("observed.approved_unknown_tx_not_in_fee_velocity");
        } else if !fee_flagged && fee >= 0 {
            let now = ctx.world.now();
            if let Some(w) = ctx.window.as_mut() {
                r.count("ante.velocity_window_checked");
                if let Some((sum, any_appr)) = w.accept(now, fee as u128 * 1000, via_approver) {
                    let _ = any_appr;
                    let sig = "c08:fee-velocity-exceeded";
                    let tail: Vec<Value> =
                        w.accepted.iter().rev().take(16).map(|(t, a, v)| json!([t, a.to_string(), v])).collect();
                    r.violation(
                        sig,
                        detail(json!({"entry": entry, "fee_velocity": format!("{:?}", ctx.vel), "t": now,
                                      "fee_msat": (fee as u128 * 1000).to_string(), "window_sum_msat": sum.to_string(),
                                      "accepted_tail_[t,fee_msat,via_approver]": tail})),
                    );
                    // forget, so that one excess is reported once
                    w.accepted.pop();
                }
            }
        }
    }
    Judged { class_violation, fee_flagged, fee }
}

/// exactness of a reported list of unknown indices
fn judge_unknown_indices(case: &Case, r: &mut Report, entry: &str, reported: &[usize], detail: &dyn Fn(Value) -> Value) {
    r.count("ante.unknown_indices_checked");
    let rep: BTreeSet<usize> = reported.iter().cloned().collect();
    let mut missing = vec![];
    let mut extra = vec![];
    for (i, o) in case.outs.iter().enumerate() {
        let pure_unknown = o.cls == Cls::Unknown;
        let beneficial = matches!(o.cls, Cls::Wallet | Cls::AllowScript | Cls::XpubChild | Cls::FundGood);
        if pure_unknown && !rep.contains(&i) {
            missing.push(i);
        }
        if beneficial && rep.contains(&i) {
            extra.push(i);
        }
    }
    let out_of_range: Vec<usize> = rep.iter().cloned().filter(|i| *i >= case.outs.len()).collect();
    let dup = rep.len() != reported.len();
    if !missing.is_empty() || !extra.is_empty() || !out_of_range.is_empty() || dup {
        r.violation(
            "c08:unknown-destination-indices-wrong",
            detail(json!({"entry": entry, "reported": reported, "missing_unknown": missing,
                          "beneficial_reported_as_unknown": extra, "out_of_range": out_of_range, "duplicates": dup})),
        );
    }
}

fn fee_class(ctx: &Ctx, case: &Case) -> &'static str {
    let sum_in: u128 = case.prev_outs.iter().map(|o| o.value.to_sat() as u128).sum();
    let sum_out: u128 = case.outs.iter().map(|o| o.txout.value.to_sat() as u128).sum();
    let w_ub = weight_upper_bound(&case.tx, &case.ucks);
    let bound: u128 = (ctx.max_feerate as u128 + 1) * w_ub / 1000 + 1;
    if sum_in > u64::MAX as u128 {
        "inputs-overflow-u64"
    } else if sum_in < sum_out {
        "negative"
    } else {
        let f = sum_in - sum_out;
        if f == 0 {
            "zero"
        } else if f <= bound {
            "within"
        } else if f * 1000 + 999 >= 1u128 << 64 {
            "msat-over-u64"
        } else if f * 1000 / (case.tx.weight().to_wu() as u128).max(1) >= 1u128 << 32 {
            "feerate-over-u32"
        } else {
            "over"
        }
    }
}

/// replace every run of digits by '#', so that message sets stay small and readable
fn squash_digits(s: &str) -> String {
    let mut out = String::new();
    for (n, tok) in s.split(' ').enumerate() {
        if n > 0 {
            out.push(' ');
        }
        if tok.len() >= 16 && tok.chars().all(|c| c.is_ascii_hexdigit()) {
            out.push_str("<hex>");
            continue;
        }
        let mut in_num = false;
        for c in tok.chars() {
            if c.is_ascii_digit() {
                if !in_num {
                    out.push('#');
                }
                in_num = true;
            } else {
                in_num = false;
                out.push(c);
            }
        }
    }
    out
}

fn status_tag(msg: &str) -> String {
    // ValidationError Display is "{kind:?}[{tag}]"
    if let (Some(a), Some(b)) = (msg.rfind('['), msg.rfind(']')) {
        if a < b {
            return msg[a + 1..b].to_string();
        }
    }
    msg.chars().take(60).collect()
}

fn gen_step(rng: &mut Rng) -> u64 {
    match rng.below(10) {
        0 | 1 | 2 | 3 => 0,
        4 => 1,
        5 => rng.below(300),
        6 => 300,
        7 => 3600,
        8 => rng.below(7200),
        _ => rng.below(90_000),
    }
}

// ---------------------------------------------------------------------------------------------
// what the signer may take as "known to be segwit" when the transaction arrives over the protocol
// ---------------------------------------------------------------------------------------------

/// Over the protocol (SignWithdrawal, SignHtlcTxMingle) the per-input segwit flags that `check_onchain_tx`
/// relies on are not sent by the node: the signer derives them while decoding the PSBT, from the input
/// transactions streamed along.  A flag may only be set for an input whose transaction was supplied
/// (`non_witness_utxo`, hashing to the spent txid) and whose spent output is a witness program; the
/// `witness_utxo` field is the node's unauthenticated claim.  Ground truth is how the PSBT was built here.
fn psbt_segwit_probe(rng: &mut Rng, r: &mut Report, shard: usize, h: u64, seed: u64) {
    use lightning_signer::bitcoin::consensus::deserialize;
    use lightning_signer::bitcoin::psbt::Psbt;
    use vls_protocol::psbt::StreamedPSBT;
    let secp = Secp256k1::new();
    for k in 0..6u64 {
        let n_in = 1 + rng.usize(3);
        let mut inputs = vec![];
        // (supplied input tx?, the spent output is a witness program?, claimed witness_utxo?)
        let mut truth: Vec<(bool, bool, bool)> = vec![];
        let mut in_txs: Vec<Option<Transaction>> = vec![];
        let mut claims: Vec<Option<TxOut>> = vec![];
        for i in 0..n_in {
            let pk = rand_pubkey(rng, &secp);
            let segwit_out = rng.chance(2, 3);
            let kind = if segwit_out { *rng.pick(&["p2wpkh", "p2tr"]) } else { *rng.pick(&["p2pkh", "p2sh-p2wpkh"]) };
            let spk = key_script(&secp, &pk, kind, Network::Regtest);
            let spent = TxOut { value: Amount::from_sat(100_000 + rng.below(5_000_000)), script_pubkey: spk };
            // the input transaction: the spent output sits at a random index among decoys of the other kind
            let vout = rng.usize(3);
            let mut outs = vec![];
            for j in 0..3 {
                if j == vout {
                    outs.push(spent.clone());
                } else {
                    let pk2 = rand_pubkey(rng, &secp);
                    let other_kind = if segwit_out { "p2pkh" } else { "p2wpkh" };
                    outs.push(TxOut { value: Amount::from_sat(50_000 + rng.below(1000)), script_pubkey: key_script(&secp, &pk2, other_kind, Network::Regtest) });
                }
            }
            let in_tx = Transaction {
                version: Version::TWO,
                lock_time: LockTime::ZERO,
                input: vec![TxIn { previous_output: OutPoint { txid: Txid::from_byte_array(rng.bytes::<32>()), vout: i as u32 }, script_sig: ScriptBuf::new(), sequence: Sequence::MAX, witness: Witness::default() }],
                output: outs,
            };
            let supply_tx = rng.chance(1, 2);
            // what the node claims in witness_utxo: the true output, or (only without the transaction, where
            // nothing can contradict it) a made-up segwit output
            let claim = match rng.below(3) {
                0 => None,
                1 => Some(spent.clone()),
                _ => {
                    if supply_tx {
                        Some(spent.clone())
                    } else {
                        let pk3 = rand_pubkey(rng, &secp);
                        Some(TxOut { value: spent.value, script_pubkey: key_script(&secp, &pk3, "p2wpkh", Network::Regtest) })
                    }
                }
            };
            inputs.push(TxIn { previous_output: OutPoint { txid: in_tx.compute_txid(), vout: vout as u32 }, script_sig: ScriptBuf::new(), sequence: Sequence::MAX, witness: Witness::default() });
            truth.push((supply_tx, segwit_out, claim.is_some()));
            in_txs.push(if supply_tx { Some(in_tx) } else { None });
            claims.push(claim);
        }
        let pk_out = rand_pubkey(rng, &secp);
        let tx = Transaction {
            version: Version::TWO,
            lock_time: LockTime::ZERO,
            input: inputs,
            output: vec![TxOut { value: Amount::from_sat(90_000), script_pubkey: key_script(&secp, &pk_out, "p2wpkh", Network::Regtest) }],
        };
        let mut psbt = match Psbt::from_unsigned_tx(tx.clone()) {
            Ok(p) => p,
            Err(_) => continue,
        };
        for i in 0..n_in {
            psbt.inputs[i].non_witness_utxo = in_txs[i].clone();
            psbt.inputs[i].witness_utxo = claims[i].clone();
        }
        let bytes = psbt.serialize();
        r.count("psbt_probe.psbts");
        let decoded: Result<Result<StreamedPSBT, _>, String> = report::catch(|| deserialize::<StreamedPSBT>(&bytes));
        match decoded {
            Ok(Ok(sp)) => {
                if sp.segwit_flags.len() != n_in {
                    r.violation("c08:psbt-segwit-flags-do-not-cover-every-input", json!({"replay": {"seed": seed, "shard": shard, "history": h, "psbt": k}, "inputs": n_in, "flags": sp.segwit_flags}));
                    continue;
                }
                for i in 0..n_in {
                    let (supplied, segwit, claimed) = truth[i];
                    r.count(&format!("psbt_probe.input.tx_supplied={}.segwit_output={}.witness_utxo_claimed={}.flag={}", supplied, segwit, claimed, sp.segwit_flags[i]));
                    r.distinct_str(&format!("psbt-probe|{}|{}|{}|{}", supplied, segwit, claimed, sp.segwit_flags[i]));
                    if sp.segwit_flags[i] && !(supplied && segwit) {
                        let sig = if !supplied { "c08:input-taken-as-segwit-without-its-transaction" } else { "c08:non-segwit-input-taken-as-segwit" };
                        r.violation(sig, json!({"replay": {"seed": seed, "shard": shard, "history": h, "psbt": k}, "input": i,
                            "input_transaction_supplied": supplied, "spent_output_is_witness_program": segwit, "witness_utxo_claimed": claimed,
                            "spent_vout": tx.input[i].previous_output.vout, "decoded_flags": sp.segwit_flags, "psbt_hex": hex::encode(&bytes)}));
                    }
                }
            }
            Ok(Err(e)) => {
                r.count("psbt_probe.decode_refused");
                r.set_add("psbt_probe_refusals", &format!("{:?}", e).chars().take(80).collect::<String>());
            }
            Err(p) => {
                r.count("psbt_probe.decode_panicked");
                r.set_add("panics", &p.chars().take(160).collect::<String>());
            }
        }
    }
}

// ---------------------------------------------------------------------------------------------
// the same request through the protocol handler
// ---------------------------------------------------------------------------------------------

/// RecApprover behind the Arc the handler wants
struct SharedRec(Arc<RecApprover>);
impl SendSync for SharedRec {}
impl Approve for SharedRec {
    fn approve_invoice(&self, i: &Invoice) -> bool {
        self.0.approve_invoice(i)
    }
    fn approve_keysend(&self, h: PaymentHash, a: u64) -> bool {
        self.0.approve_keysend(h, a)
    }
    fn approve_onchain(&self, tx: &Transaction, prev_outs: &[TxOut], unknown_indices: &[usize]) -> bool {
        self.0.approve_onchain(tx, prev_outs, unknown_indices)
    }
}

/// Send the case as `SignWithdrawal` (or its sibling `SignHtlcTxMingle`) to a RootHandler built on the world's node
/// with the given approver.  Ok(Ok(true)): the handler signed (…Reply); Ok(Ok(false)): refused as "unapproved
/// destination"; Ok(Err(tag)): refused otherwise; Err: panic.
fn wire_call(
    ctx: &Ctx,
    case: &Case,
    rng: &mut Rng,
    r: &mut Report,
    approver: Arc<dyn Approve>,
    mingle: bool,
    version: u32,
) -> Result<Result<bool, String>, String> {
    use lightning_signer::bitcoin::consensus::deserialize;
    let w = case.wire.as_ref().expect("harness: wire case");
    let name = if mingle { "SignHtlcTxMingle" } else { "SignWithdrawal" };
    let n_in = case.tx.input.len();
    let mut psbt = match Psbt::from_unsigned_tx(case.tx.clone()) {
        Ok(p) => p,
        Err(e) => {
            r.count("handler.harness_psbt_build_failed");
            return Ok(Err(format!("harness-psbt:{:?}", e).chars().take(60).collect()));
        }
    };
    // the handler reads the previous outputs from witness_utxo and panics without one (malformed wire input):
    // now and then that is what it gets
    let omit_witness_utxo = rng.chance(1, 250) && w.supplied.iter().any(|s| !*s);
    for i in 0..n_in {
        if w.supplied[i] {
            psbt.inputs[i].non_witness_utxo = Some(w.in_txs[i].clone());
            // optional next to the transaction (the decoder fills it in from the transaction)
            if rng.bool() {
                psbt.inputs[i].witness_utxo = Some(case.prev_outs[i].clone());
            }
        } else if !omit_witness_utxo {
            psbt.inputs[i].witness_utxo = Some(case.prev_outs[i].clone());
        }
        if let Some(script) = &w.nested[i] {
            if rng.chance(2, 3) {
                psbt.inputs[i].redeem_script = Some(script.clone());
            }
        }
    }
    // the handler reads only the PATH of an output's derivation entry; the key is a dummy
    let dummy = ctx.account_xpub.public_key;
    let fp = ctx.account_xpub.fingerprint();
    for (i, o) in case.outs.iter().enumerate() {
        if o.opath.is_empty() {
            continue;
        }
        if o.txout.script_pubkey.is_p2tr() && rng.bool() {
            psbt.outputs[i].tap_key_origins.insert(dummy.x_only_public_key().0, (vec![], (fp, o.opath.clone())));
            r.count("handler.output_path.tap_key_origins");
        } else {
            psbt.outputs[i].bip32_derivation.insert(dummy, (fp, o.opath.clone()));
            r.count("handler.output_path.bip32_derivation");
        }
    }
    let bytes = psbt.serialize();
    let streamed: StreamedPSBT = match report::catch(|| deserialize::<StreamedPSBT>(&bytes)) {
        Ok(Ok(sp)) => sp,
        Ok(Err(e)) => {
            r.count("handler.psbt_decode_refused");
            r.set_add("handler_psbt_decode_refusals", &format!("{:?}", e).chars().take(80).collect::<String>());
            return Ok(Err("psbt-decode".into()));
        }
        Err(p) => {
            r.count("handler.psbt_decode_panic");
            return Err(p);
        }
    };
    let mut utxos = vec![];
    for i in 0..n_in {
        let op = case.tx.input[i].previous_output;
        let close_info = match (&w.close[i], ctx.close_chan.as_ref()) {
            (Some(cp), Some(Some(cc))) => Some(CloseInfo {
                channel_id: cc.dbid,
                peer_id: PubKey(cc.peer_id),
                commitment_point: cp.map(|p| PubKey(p.serialize())),
                is_anchors: cc.anchors,
                csv: 1 + rng.below(2016) as u32,
            }),
            _ => None,
        };
        if w.keyindex[i].is_none() && close_info.is_none() {
            continue;
        }
        utxos.push(Utxo {
            txid: op.txid,
            outnum: op.vout,
            amount: case.prev_outs[i].value.to_sat(),
            keyindex: w.keyindex[i].unwrap_or(0),
            is_p2sh: case.in_kinds[i] == InKind::P2shP2wpkh,
            script: Octets(case.prev_outs[i].script_pubkey.to_bytes()),
            close_info,
            is_in_coinbase: false,
        });
    }
    if rng.bool() {
        utxos.reverse();
    }
    let n_utxos = utxos.len();
    let msg = if mingle {
        Message::SignHtlcTxMingle(msgs::SignHtlcTxMingle { peer_id: PubKey(ctx.account_xpub.public_key.serialize()), dbid: 1 + rng.below(100), utxos: Array(utxos), psbt: WithSize(streamed) })
    } else {
        Message::SignWithdrawal(msgs::SignWithdrawal { utxos: Array(utxos), psbt: WithSize(streamed) })
    };
    let node = ctx.world.node.clone();
    let res = report::catch(move || {
        let mut init = InitHandler::new(0, node, approver, version);
        init.handle(Message::HsmdInit(msgs::HsmdInit {
            key_version: Bip32KeyVersion { pubkey_version: 0x043587CF, privkey_version: 0x04358394 },
            chain_params: BlockHash::all_zeros(),
            encryption_key: None,
            dev_privkey: None,
            dev_bip32_seed: None,
            dev_channel_secrets: None,
            dev_channel_secrets_shaseed: None,
            hsm_wire_min_version: 2,
            hsm_wire_max_version: 6,
        }))
        .expect("hsmd init");
        let root: RootHandler = init.into();
        root.handle(msg)
    });
    match res {
        Ok(Ok(reply)) => {
            let signed_psbt = if mingle {
                reply.as_any().downcast_ref::<msgs::SignHtlcTxMingleReply>().map(|m| &m.psbt.0.inner)
            } else {
                reply.as_any().downcast_ref::<msgs::SignWithdrawalReply>().map(|m| &m.psbt.0.inner)
            };
            match signed_psbt {
                Some(p) => {
                    r.count(&format!("handler.{}.ok", name));
                    r.count(&format!("handler.version.{}.ok", version));
                    let signed = p.inputs.iter().filter(|i| i.final_script_witness.is_some()).count();
                    r.count_n("handler.inputs_signed", signed as u64);
                    r.count_n("handler.utxo_entries_in_signed_requests", n_utxos as u64);
                    if signed < n_utxos {
                        // a p2pkh input gets its signature in a witness field too, so this is not expected
                        r.count("handler.fewer_inputs_signed_than_utxo_entries");
                    }
                    if p.unsigned_tx.compute_txid() != case.tx.compute_txid() {
                        r.count("handler.reply_tx_differs_from_request");
                        r.note("the PSBT in a SignWithdrawalReply carries another transaction than the request");
                    }
                    Ok(Ok(true))
                }
                None => {
                    r.count(&format!("handler.{}.unexpected_reply_type", name));
                    r.note("the handler answered SignWithdrawal/SignHtlcTxMingle with another reply type");
                    Ok(Err("unexpected-reply".into()))
                }
            }
        }
        Ok(Err(e)) => {
            let st = match &e {
                HandlerError::Signing(st) | HandlerError::Temporary(st) => Some(st.message().to_string()),
                HandlerError::Protocol(_) => None,
            };
            match st {
                Some(m) if m == "unapproved destination" => {
                    r.count(&format!("handler.{}.unapproved", name));
                    Ok(Ok(false))
                }
                Some(m) => {
                    r.count(&format!("handler.{}.refused", name));
                    r.count(&format!("handler.version.{}.refused", version));
                    Ok(Err(status_tag(&m)))
                }
                None => {
                    r.count(&format!("handler.{}.protocol_error", name));
                    Ok(Err(format!("protocol:{:?}", e).chars().take(60).collect()))
                }
            }
        }
        Err(p) => {
            r.count(&format!("handler.{}.panic", name));
            if omit_witness_utxo {
                r.count("handler.expected_panic.input_without_witness_utxo");
            }
            Err(p)
        }
    }
}

fn history(rng: &mut Rng, r: &mut Report, shard: usize, h: u64, steps: u64, seed: u64) {
    psbt_segwit_probe(rng, r, shard, h, seed);
    let mut ctx = new_ctx(rng);
    r.count(&format!("worlds.velocity.{}", ctx.vel_name));
    r.count(&format!("worlds.style.{}", if ctx.native { "native" } else { "ldk" }));
    for s in 0..steps {
        ctx.world.advance_time(gen_step(rng));
        // now and then an allowlisted script is removed again; half of the removals meet a store that is
        // unavailable for one write (the request fails or the daemon dies, the node repeats it), and the signer
        // is restarted afterwards: from then on the script is an unknown destination
        if !ctx.allow_scripts.is_empty() && rng.chance(1, 30) {
            let i = rng.usize(ctx.allow_scripts.len());
            let entry = ctx.allow_strings[i].clone();
            let inject = rng.bool();
            if inject {
                ctx.world.store.arm_faults(0, 1);
            }
            let n1 = ctx.world.node.clone();
            let e1 = entry.clone();
            let mut res = report::catch(move || n1.remove_allowlist(&[e1]).map_err(|e| format!("{:?}", e)));
            let fired = if inject { ctx.world.store.disarm_faults() } else { 0 };
            let mut ok = true;
            if fired > 0 && !matches!(res, Ok(Ok(()))) {
                r.count("allowlist.removal_met_storage_failure");
                if res.is_err() {
                    ok = ctx.world.restart().is_ok();
                    ctx.node_ctx.node = ctx.world.node.clone();
                }
                if ok {
                    let n2 = ctx.world.node.clone();
                    let e2 = entry.clone();
                    res = report::catch(move || n2.remove_allowlist(&[e2]).map_err(|e| format!("{:?}", e)));
                    r.count("allowlist.removal_retried");
                }
            }
            if ok && matches!(res, Ok(Ok(()))) {
                let script = ctx.allow_scripts.remove(i);
                ctx.allow_strings.remove(i);
                ctx.removed_scripts.push(script);
                r.count("allowlist.script_removed");
                if fired > 0 || rng.bool() {
                    if ctx.world.restart().is_ok() {
                        ctx.node_ctx.node = ctx.world.node.clone();
                        r.count("allowlist.restart_after_removal");
                    } else {
                        r.inconclusive("restart failed");
                        return;
                    }
                }
            } else {
                r.note(&format!("remove_allowlist failed: {:?}", res).chars().take(160).collect::<String>());
                r.count("allowlist.removal_failed");
                ctx = new_ctx(rng);
            }
        }
        // entry: the library API directly, or the same request through the protocol handler (a quarter of the cases),
        // where the approver kinds are those of the direct entries
        let wire = rng.chance(1, 4);
        let entry_kind = if wire { 1 + rng.weighted(&[70, 15, 15]) } else { rng.weighted(&[50, 34, 8, 8]) };
        let mingle = wire && rng.chance(1, 5);
        let version = *rng.pick(&[4u32, 5, 6]);
        let case = gen_case(&mut ctx, rng, r, wire);
        r.eval(1);
        r.count(&format!("scenario.{}", case.scenario));
        if wire {
            r.count(&format!("handler.scenario.{}", case.scenario));
        }
        for o in case.outs.iter() {
            r.count(&format!("class.{}.offered", o.cls.name()));
        }
        let approver_name = ["", "recording", "positive", "negative"][entry_kind];
        let entry_string = if wire {
            format!("handler:{}(v{})/{}", if mingle { "SignHtlcTxMingle" } else { "SignWithdrawal" }, version, approver_name)
        } else if entry_kind == 0 {
            "check_onchain_tx".to_string()
        } else {
            format!("handle_proposed_onchain/{}", approver_name)
        };
        let entry: &str = &entry_string;
        // counter prefix of the approver-path outcomes
        let pfx = if wire { "handler.request" } else { "handle_proposed_onchain" };
        let base = case_json(&ctx, &case);
        let detail = |extra: Value| -> Value {
            json!({"replay": {"seed": seed, "shard": shard, "history": h, "step": s}, "case": base, "observed": extra})
        };
        let unknown_set: BTreeSet<usize> =
            case.outs.iter().enumerate().filter(|(_, o)| o.cls == Cls::Unknown).map(|(i, _)| i).collect();
        let node = ctx.world.node.clone();
        let mut outcome: String;
        let mut judged: Option<Judged> = None;
        match entry_kind {
            0 => {
                let res = report::catch(|| node.check_onchain_tx(&case.tx, &case.flags, &case.prev_outs, &case.ucks, &case.opaths));
                match res {
                    Ok(Ok(())) => {
                        r.count("check_onchain_tx.ok");
                        outcome = "ok".into();
                        judged = Some(judge_accept(&mut ctx, &case, r, entry, None, &detail));
                    }
                    Ok(Err(e)) => match &e.kind {
                        ValidationErrorKind::UnknownDestinations(_, idx) => {
                            r.count("check_onchain_tx.err.unknown_destinations");
                            outcome = "unknown-destinations".into();
                            judge_unknown_indices(&case, r, entry, idx, &detail);
                        }
                        _ => {
                            r.count(&format!("check_onchain_tx.err.{}", e.tag));
                            outcome = format!("err:{}", e.tag);
                            r.set_add("refusal_messages", &squash_digits(&format!("{}", e)).chars().take(100).collect::<String>());
                        }
                    },
                    Err(p) => {
                        r.count("check_onchain_tx.panic");
                        r.set_add("panics", &p.chars().take(160).collect::<String>());
                        outcome = "panic".into();
                    }
                }
            }
            _ => {
                let rec = Arc::new(RecApprover { answer: entry_kind == 1 && !rng.chance(1, 5), asked: Mutex::new(vec![]) });
                let res: Result<Result<bool, String>, String> = if wire {
                    let approver: Arc<dyn Approve> = match entry_kind {
                        1 => Arc::new(SharedRec(rec.clone())),
                        2 => Arc::new(PositiveApprover()),
                        _ => Arc::new(NegativeApprover()),
                    };
                    wire_call(&ctx, &case, rng, r, approver, mingle, version)
                } else {
                    report::catch(|| match entry_kind {
                        1 => rec.handle_proposed_onchain(&node, &case.tx, &case.flags, &case.prev_outs, &case.ucks, &case.opaths),
                        2 => PositiveApprover().handle_proposed_onchain(&node, &case.tx, &case.flags, &case.prev_outs, &case.ucks, &case.opaths),
                        _ => NegativeApprover().handle_proposed_onchain(&node, &case.tx, &case.flags, &case.prev_outs, &case.ucks, &case.opaths),
                    })
                    .map(|x| x.map_err(|st| status_tag(st.message())))
                };
                let asked = rec.asked.lock().unwrap().clone();
                if asked.len() > 1 {
                    r.note("approver consulted more than once for one transaction");
                }
                for a in asked.iter() {
                    judge_unknown_indices(&case, r, entry, a, &detail);
                }
                match res {
                    Ok(Ok(true)) => {
                        r.count(&format!("{}.ok_true", pfx));
                        outcome = "ok-true".into();
                        // which indices were explicitly approved?
                        let approved: Option<BTreeSet<usize>> = match entry_kind {
                            1 => {
                                if rec.answer && !asked.is_empty() {
                                    Some(asked.iter().flatten().cloned().collect())
                                } else {
                                    if !asked.is_empty() && !rec.answer {
                                        r.violation(
                                            "c08:accepted-after-approver-declined",
                                            detail(json!({"entry": entry, "asked": asked})),
                                        );
                                    }
                                    None
                                }
                            }
                            // the positive approver approves whatever it is asked; what it was asked is not
                            // observable, so it is taken to be the by-construction unknown set
                            2 => if unknown_set.is_empty() { None } else { Some(unknown_set.clone()) },
                            _ => None,
                        };
                        if approved.as_ref().map(|a| !a.is_empty()).unwrap_or(false) {
                            r.count("ante.accepted_with_approved_unknown");
                            outcome = "ok-true-approved".into();
                        }
                        if wire {
                            r.count("handler.ante.accepted");
                            if case.outs.iter().any(|o| o.cls == Cls::FundGood) {
                                r.count("handler.ante.accepted_good_funding");
                            }
                            if approved.as_ref().map(|a| !a.is_empty()).unwrap_or(false) {
                                r.count("handler.ante.accepted_with_approved_unknown");
                            }
                        }
                        judged = Some(judge_accept(&mut ctx, &case, r, entry, approved.as_ref(), &detail));
                    }
                    Ok(Ok(false)) => {
                        r.count(&format!("{}.ok_false", pfx));
                        outcome = "ok-false".into();
                        if entry_kind == 1 && asked.is_empty() {
                            r.note("handle_proposed_onchain returned Ok(false) without consulting the approver");
                        }
                    }
                    Ok(Err(tag)) => {
                        r.count(&format!("{}.err.{}", pfx, tag));
                        outcome = format!("err:{}", tag);
                    }
                    Err(p) => {
                        r.count(&format!("{}.panic", pfx));
                        r.set_add("panics", &p.chars().take(160).collect::<String>());
                        outcome = "panic".into();
                    }
                }
            }
        }
        // per-class refusal counts (antecedent of the near-miss rules: they were offered and decided)
        let accepted = outcome.starts_with("ok") && outcome != "ok-false";
        if !accepted {
            for o in case.outs.iter() {
                r.count(&format!("class.{}.in_refused_tx", o.cls.name()));
            }
            let bad: Vec<&Out> = case.outs.iter().filter(|o| o.cls.is_bad_funding()).collect();
            if bad.len() == 1 && case.scenario == "one-bad-output" {
                r.count(&format!("sole_defect_refused.{}", bad[0].cls.name()));
            }
            if case.scenario == "nonsegwit-funding" {
                r.count("sole_defect_refused.nonsegwit-input-when-funding");
            }
            if let Some(w) = case.wire.as_ref() {
                // the same antecedents, through the handler
                if bad.len() == 1 && case.scenario == "one-bad-output" {
                    r.count("handler.sole_defect_refused.bad-funding-output");
                }
                if case.scenario == "nonsegwit-funding" {
                    r.count(if w.supplied.iter().all(|s| *s) {
                        "handler.sole_defect_refused.nonsegwit-input-when-funding"
                    } else {
                        "handler.sole_defect_refused.input-transaction-not-streamed-when-funding"
                    });
                }
                if case.scenario == "fee-defect" || case.scenario == "e10-alias" {
                    r.count("handler.fee_defect_refused");
                }
                if case.outs.iter().any(|o| o.cls.is_unknown()) {
                    r.count("handler.refused_with_unknown_output");
                }
            }
            if case.scenario == "fee-defect" || case.scenario == "e10-alias" {
                r.count(&format!("fee_defect_refused.{}", case.fee_target));
            }
        } else if case.scenario == "fee-defect" || case.scenario == "e10-alias" {
            r.count(&format!("fee_defect_accepted.{}", case.fee_target));
        }
        let fc = fee_class(&ctx, &case);
        r.count(&format!("fee_class.{}.{}", fc, if accepted { "accepted" } else { "refused" }));
        let mut cl: Vec<&str> = case.outs.iter().map(|o| o.cls.name()).collect();
        cl.sort();
        cl.dedup();
        let nonseg = case.flags.iter().any(|f| !*f);
        let oc: String = outcome.chars().take(40).collect();
        r.distinct_str(&format!(
            "{}|{}|{}|nonseg={}|fee={}|vel={}|{}",
            entry, case.scenario, cl.join("+"), nonseg, fc, ctx.vel_name, oc
        ));
        if shard == 0 && h < 3 && s < 2 {
            let j = judged.as_ref();
            r.sample(json!({
                "entry": entry,
                "world": {"max_feerate_per_kw": ctx.max_feerate, "fee_velocity": ctx.vel_name, "style": if ctx.native {"native"} else {"ldk"},
                          "allowlist_entries": ctx.allow_strings.len()},
                "outputs_[class,kind,value_sat,opath]": case.outs.iter().map(|o| json!([o.cls.name(), o.sub, o.txout.value.to_sat().to_string(), o.opath.to_string()])).collect::<Vec<_>>(),
                "inputs_[kind,segwit,value_sat]": case.in_kinds.iter().enumerate().map(|(i, k)| json!([k.name(), case.flags[i], case.prev_outs[i].value.to_sat().to_string()])).collect::<Vec<_>>(),
                "fee_target": case.fee_target,
                "outcome": outcome,
                "oracle": j.map(|j| json!({"fee_sat": j.fee.to_string(), "class_violation": j.class_violation, "fee_flagged": j.fee_flagged})),
            }));
        }
        if outcome == "panic" {
            // a panic inside check_onchain_tx poisons the node's locks: continue in a fresh world
            r.count("worlds.replaced_after_panic");
            ctx = new_ctx(rng);
        } else if ctx.chans_made >= ctx.chan_budget && rng.chance(1, 3) {
            // channel budget used up: continue in a fresh world so that funding outputs stay possible
            r.count("worlds.replaced_channel_budget");
            ctx = new_ctx(rng);
        }
    }
}

fn main() {
    let cli = Cli::parse("C08");
    report::install_quiet_panic_hook();
    let start = Instant::now();
    let quick = cli.tier.is_quick();
    let shards = if quick { 32 } else { 128 };
    let (hist, steps) = if quick { (11u64, 60u64) } else { (40u64, 70u64) };
    let mut report = run_sharded("C08", cli.threads, shards, |i, r| {
        let mut rng = Rng::new(cli.seed.wrapping_mul(1_000_003).wrapping_add(i as u64).wrapping_add(0xC08));
        for h in 0..cli.scaled(hist) {
            let mut hr = rng.fork(h);
            history(&mut hr, r, i, h, steps, cli.seed);
        }
    });
    // antecedents: a run in which a rule never had a chance to fire is inconclusive
    report.require("ante.accepted", 2000);
    report.require("ante.fee_bound_checked", 2000);
    report.require("ante.fee_within_bound", 1500);
    report.require("ante.accepted_good_funding", 150);
    report.require("ante.accepted_multi_channel_funding", 10);
    report.require("ante.velocity_window_checked", 500);
    report.require("ante.unknown_indices_checked", 300);
    report.require("ante.accepted_with_approved_unknown", 50);
    report.require("class.unknown.in_refused_tx", 200);
    report.require("class.foreign-with-path.in_refused_tx", 50);
    for c in ["value-plus-1", "value-minus-1", "wrong-script", "inbound-channel", "push-nonzero", "initial-commitment-not-validated"] {
        report.require(&format!("sole_defect_refused.{}", c), 20);
    }
    report.require("sole_defect_refused.nonsegwit-input-when-funding", 50);
    report.require("fee_class.over.refused", 200);
    // the protocol-handler entry was really exercised (a handler entry that silently does nothing is INCONCLUSIVE)
    report.require("handler.SignWithdrawal.ok", 500);
    report.require("handler.SignWithdrawal.refused", 500);
    report.require("handler.SignHtlcTxMingle.ok", 100);
    report.require("handler.ante.accepted", 600);
    report.require("handler.ante.accepted_good_funding", 100);
    report.require("handler.ante.accepted_with_approved_unknown", 100);
    report.require("handler.inputs_signed", 1000);
    report.require("handler.sole_defect_refused.bad-funding-output", 50);
    report.require("handler.sole_defect_refused.nonsegwit-input-when-funding", 20);
    report.require("handler.sole_defect_refused.input-transaction-not-streamed-when-funding", 20);
    report.require("handler.fee_defect_refused", 100);
    report.require("handler.refused_with_unknown_output", 100);
    for v in [4, 5, 6] {
        report.require(&format!("handler.version.{}.ok", v), 100);
    }
    report.require("fee_class.negative.refused", 100);
    let level = "exploration";
    finish(
        report,
        FinishSpec {
            cli: &cli,
            level,
            rule: "seeded worlds (policy max_feerate, fee velocity unlimited/generous/default/tight, native/ldk wallet paths, allowlisted scripts and xpubs); per world a sequence of transactions built from a ground-truth class table (wallet p2wpkh/p2sh-p2wpkh/p2tr with path, wallet with wrong path, foreign key with path, allowlisted script, allowlisted-xpub child, good funding output of a channel set up for this txid:vout with validated initial commitment, near-miss funding outputs, unknown) with 1-4 inputs (segwit, non-segwit, uniclose p2wsh, foreign) and fees aimed at 0 / legal / the bound / over the bound / 2^32-feerate aliases / 2^64-msat wraps / negative, sent to Node::check_onchain_tx or Approve::handle_proposed_onchain (recording, positive, negative approvers), or - a quarter of the cases - as SignWithdrawal / SignHtlcTxMingle (protocol versions 4-6) to a RootHandler built on the node with the same approvers: a PSBT decoded as StreamedPSBT whose inputs carry their previous transactions (generated before the txid is fixed; non_witness_utxo and/or witness_utxo), p2sh redeem scripts, output paths as bip32_derivation / tap_key_origins entries, utxo entries with keyindex or close_info of a channel set up for the purpose; a signed reply is judged exactly like an acceptance of handle_proposed_onchain, with the ground-truth segwit flag of an input = its transaction was streamed along and the spent output is segwit by construction. Oracle on acceptance: no unapproved unknown output, no near-miss funding output, all inputs segwit when funding, 0 <= sum(in)-sum(out) <= (max_feerate+1)*W/1000 with W a generous weight upper bound (u128), sliding-window sum of accepted fees <= fee velocity limit; reported unknown indices must equal the by-construction unknown set. distinct = (entry/approver, scenario, set of output classes, any non-segwit input, fee class, velocity kind, outcome/tag)",
            assumptions: vec![
                "segwit_flags and prev_out values are supplied truthfully by the caller (the flag of an input is its by-construction script type)".into(),
                "a wallet address offered with a wrong (other wallet) path, and a push below 1 sat, are counted but not judged (no value leaves the node / loss < 1 sat)".into(),
                "off-by-one changes exactly at the fee bound are not detected: the weight bound is deliberately generous (DESIGN.md section 4)".into(),
                "panics of the overflow-checking profile are counted, not judged".into(),
                "through the handler: refusals the direct API would not make (nested-segwit or foreign inputs are not known-segwit there, signing failures after the check passed) and panics on malformed wire input (an input without witness_utxo) are counted, not judged; a fee counted against the velocity limit by a request that then failed to sign is not in the oracle's window (the oracle's sum is a lower bound)".into(),
                "restarts happen only after allowlist removals; persistence of the fee velocity control across restarts belongs to C12".into(),
                "a transaction whose unknown outputs were explicitly approved is judged on its output classes, funding outputs and segwit inputs only; its fee and the fee velocity are outside the property (explicit approval covers the whole transaction) and are only counted (observed.approved_unknown_*)".into(),
            ],
            start,
            extra_coverage: Default::default(),
        },
    );
}
