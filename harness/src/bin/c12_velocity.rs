//! C12 — velocity limits bound spending in every time window, across restarts.
//!
//! Layer 1: `VelocityControl` alone under random non-decreasing timestamps and amounts,
//! against a sliding-window oracle over the list of accepted (t, amount).
//! Layer 2: a real `Node` with a manual clock: add_keysend / add_invoice (payment control)
//! and check_onchain_tx (fee control), with restarts from the store between approvals.

use lightning_signer::bitcoin::bip32::{ChildNumber, DerivationPath};
use lightning_signer::bitcoin::hashes::{sha256, Hash};
use lightning_signer::bitcoin::secp256k1::{PublicKey, Secp256k1, SecretKey};
use lightning_signer::bitcoin::{Transaction, TxOut};
use lightning_signer::invoice::Invoice;
use lightning_signer::lightning::types::payment::{PaymentHash, PaymentSecret};
use lightning_signer::lightning_invoice::{Currency, InvoiceBuilder};
use lightning_signer::node::SpendType;
use lightning_signer::util::test_utils::{
    make_test_funding_tx_with_ins_outs, make_test_funding_wallet_input,
    make_test_funding_wallet_output,
};
use lightning_signer::util::velocity::{
    VelocityControl, VelocityControlIntervalType, VelocityControlSpec,
};
use serde_json::json;
use std::time::{Duration, Instant};
use vls_verif::report::{self, finish, run_sharded, FinishSpec};
use vls_verif::world::{World, WorldCfg};
use vls_verif::{Cli, Report, Rng};

/// Sliding-window oracle: the accepted approvals
struct Window {
    accepted: Vec<(u64, u64)>,
    limit: u64,
    window: u64, // (N-1) * bucket
}

impl Window {
    fn new(limit: u64, bucket: u64, nbuckets: u64) -> Window {
        Window { accepted: vec![], limit, window: (nbuckets - 1) * bucket }
    }
    /// record an acceptance at t, return Some(sum) if the closed window [t-window, t] now exceeds
    fn accept(&mut self, t: u64, a: u64) -> Option<u128> {
        self.accepted.push((t, a));
        let lo = t.saturating_sub(self.window);
        let sum: u128 =
            self.accepted.iter().filter(|(ti, _)| *ti >= lo && *ti <= t).map(|(_, a)| *a as u128).sum();
        // keep memory bounded
        if self.accepted.len() > 4096 {
            self.accepted.retain(|(ti, _)| *ti >= lo);
        }
        if sum > self.limit as u128 {
            Some(sum)
        } else {
            None
        }
    }
}

fn gen_step(rng: &mut Rng, bucket: u64, nb: u64) -> u64 {
    match rng.below(12) {
        0 | 1 | 2 => 0,
        3 | 4 => 1,
        5 => bucket.saturating_sub(1),
        6 => bucket,
        7 => bucket + 1,
        8 => rng.below(bucket * 2 + 1),
        9 => bucket * nb.saturating_sub(1),
        10 => bucket * nb + rng.below(3),
        _ => rng.below(bucket * nb * 3 + 1),
    }
}

fn gen_amount(rng: &mut Rng, limit: u64) -> u64 {
    match rng.below(12) {
        0 => 0,
        1 => 1,
        2 => limit,
        3 => limit.saturating_add(1),
        4 => u64::MAX,
        5 => u64::MAX - rng.below(3),
        6 => limit / 2,
        7 => limit / 2 + 1,
        8 | 9 => rng.range(1, (limit / 8).max(1)),
        _ => rng.range(1, limit.max(1)),
    }
}

fn layer1(rng: &mut Rng, r: &mut Report, histories: u64, steps: u64) {
    for h in 0..histories {
        let (limit, bucket, nb, mut c, kind) = match rng.below(5) {
            0 => {
                let limit = rng.range(1, 1_000_000);
                let spec = VelocityControlSpec { limit_msat: limit, interval_type: VelocityControlIntervalType::Hourly };
                (limit, 300u64, 12u64, VelocityControl::new(spec), "hourly")
            }
            1 => {
                let limit = rng.range(1, u64::MAX - 1);
                let spec = VelocityControlSpec { limit_msat: limit, interval_type: VelocityControlIntervalType::Daily };
                (limit, 3600, 24, VelocityControl::new(spec), "daily")
            }
            2 => {
                let spec = VelocityControlSpec::UNLIMITED;
                (u64::MAX, 300, 12, VelocityControl::new(spec), "unlimited")
            }
            _ => {
                let limit = if rng.bool() { rng.range(1, 1000) } else { rng.range(1, u64::MAX - 1) };
                let bucket = rng.range(1, 50);
                let nb = rng.range(1, 9);
                (limit, bucket, nb, VelocityControl::new_with_intervals(limit, bucket as u32, nb as usize), "custom")
            }
        };
        let unlimited = c.is_unlimited();
        let mut w = Window::new(limit, bucket, nb);
        let mut t: u64 = if rng.bool() { rng.below(10_000) } else { 1_700_000_000 + rng.below(100_000) };
        let mut trace = vec![];
        let mut accepted = 0u64;
        let mut refused = 0u64;
        for _ in 0..steps {
            t += gen_step(rng, bucket, nb);
            let a = gen_amount(rng, limit);
            let ok = match report::catch(|| c.insert(t, a)) {
                Ok(b) => b,
                Err(p) => {
                    r.count("layer1.panic");
                    r.note(&format!("VelocityControl::insert panicked: {}", p));
                    break;
                }
            };
            r.eval(1);
            if trace.len() < 12 {
                trace.push(json!([t, a, ok]));
            }
            if ok {
                accepted += 1;
                r.count("layer1.accepted");
                if !unlimited {
                    r.count("layer1.window_checked");
                    if let Some(sum) = w.accept(t, a) {
                        r.violation(
                            "velocity-control:window-sum-exceeds-limit",
                            json!({"layer": 1, "kind": kind, "limit": limit, "bucket": bucket, "nbuckets": nb,
                                   "t": t, "amount": a, "window_sum": sum.to_string(),
                                   "accepted_tail": w.accepted.iter().rev().take(20).collect::<Vec<_>>() }),
                        );
                    }
                }
            } else {
                refused += 1;
                r.count("layer1.refused");
                if unlimited {
                    r.note("unlimited control refused an amount");
                }
            }
            // distinct: (kind, phase of t in bucket, amount class, outcome)
            let phase = if t % bucket == 0 { 0 } else if t % bucket == bucket - 1 { 2 } else { 1 };
            let aclass = if a == 0 { 0 } else if a > limit { 3 } else if a == limit { 2 } else { 1 };
            r.distinct_hash(vls_verif::rng::fnv_str(&format!("l1:{}:{}:{}:{}:{}", kind, nb, phase, aclass, ok)));
        }
        if h < 2 {
            r.sample(json!({"layer": 1, "kind": kind, "limit": limit, "bucket": bucket, "nbuckets": nb,
                            "first_inserts_[t,amount,accepted]": trace, "accepted": accepted, "refused": refused}));
        }
    }
}

fn make_invoice(now: u64, n: u64, amount_msat: u64) -> Invoice {
    let mut pre = [0u8; 32];
    pre[..8].copy_from_slice(&n.to_le_bytes());
    pre[8] = 0x11;
    let payment_hash = sha256::Hash::hash(&pre);
    let key = SecretKey::from_slice(&[42; 32]).unwrap();
    Invoice::Bolt11(
        InvoiceBuilder::new(Currency::Regtest)
            .description("verif".into())
            .payment_hash(payment_hash)
            .payment_secret(PaymentSecret(pre))
            .duration_since_epoch(Duration::from_secs(now))
            .min_final_cltv_expiry_delta(144)
            .amount_milli_satoshis(amount_msat)
            .build_signed(|h| Secp256k1::new().sign_ecdsa_recoverable(h, &key))
            .unwrap(),
    )
}

/// a wallet-to-wallet transaction paying `fee` sat
fn make_wallet_tx(world: &World, n: u32, value: u64, fee: u64) -> (Transaction, Vec<TxOut>, Vec<DerivationPath>) {
    let node = &world.node;
    let (prev, txin) = make_test_funding_wallet_input(node, SpendType::P2wpkh, n % 1000, value);
    let out = make_test_funding_wallet_output(node, (n + 1) % 1000, value - fee, SpendType::P2wpkh);
    let tx = make_test_funding_tx_with_ins_outs(vec![txin], vec![out]);
    let opath: DerivationPath = vec![ChildNumber::from_normal_idx((n + 1) % 1000).unwrap()].into();
    (tx, vec![prev.output[0].clone()], vec![opath])
}

fn layer2(rng: &mut Rng, r: &mut Report, histories: u64, steps: u64) {
    let secp = Secp256k1::new();
    let payee = PublicKey::from_secret_key(&secp, &SecretKey::from_slice(&[9; 32]).unwrap());
    for h in 0..histories {
        let mut cfg = WorldCfg::regtest(rng.bytes::<32>());
        let mut hourly = rng.bool();
        let mut pay_limit = rng.range(10_000, 5_000_000);
        let mut fee_hourly = rng.bool();
        let mut fee_limit = rng.range(500_000, 200_000_000); // msat
        cfg.policy.global_velocity_control = VelocityControlSpec {
            limit_msat: pay_limit,
            interval_type: if hourly { VelocityControlIntervalType::Hourly } else { VelocityControlIntervalType::Daily },
        };
        cfg.policy.fee_velocity_control = VelocityControlSpec {
            limit_msat: fee_limit,
            interval_type: if fee_hourly { VelocityControlIntervalType::Hourly } else { VelocityControlIntervalType::Daily },
        };
        cfg.policy.max_invoices = 100_000;
        let (mut pb, mut pn) = if hourly { (300, 12) } else { (3600, 24) };
        let (mut fb, mut fnb) = if fee_hourly { (300, 12) } else { (3600, 24) };
        // which control an operator reconfigured at the last restart ("" = none): the other one must keep its window
        let mut reconfigured = "";
        let mut world = World::new(cfg);
        let mut pay_w = Window::new(pay_limit, pb, pn);
        let mut fee_w = Window::new(fee_limit, fb, fnb);
        let mut trace = vec![];
        let mut since_restart_pay = 0u64;
        let mut since_restart_fee = 0u64;
        // (hash, amount, ever approved) / (key, invoice, amount, ever approved) of the requests made so far
        let mut asked_keysends: Vec<([u8; 32], u64, bool)> = vec![];
        let mut asked_invoices: Vec<(u64, Invoice, u64, bool)> = vec![];
        for s in 0..steps {
            let n = h * 1_000_000 + s;
            world.advance_time(gen_step(rng, pb.min(fb), 4));
            let now = world.now();
            let op = rng.weighted(&[30, 20, 30, 12, 4]);
            r.eval(1);
            match op {
                0 => {
                    let mut a = gen_amount(rng, pay_limit).min(u64::MAX / 2);
                    let mut hash = [0u8; 32];
                    hash[..8].copy_from_slice(&n.to_le_bytes());
                    // one request in four repeats an earlier one (same payee, hash and amount): a node retries
                    let mut repeat_of_approved = false;
                    if !asked_keysends.is_empty() && rng.chance(1, 4) {
                        let back = 1 + rng.usize(asked_keysends.len().min(4));
                        let (h0, a0, ok0): ([u8; 32], u64, bool) = asked_keysends[asked_keysends.len() - back];
                        hash = h0;
                        a = a0;
                        repeat_of_approved = ok0;
                        r.count(if ok0 { "layer2.keysend.repeat_of_approved" } else { "layer2.keysend.repeat_of_refused" });
                    }
                    let res = report::catch(|| world.node.add_keysend(payee, PaymentHash(hash), a));
                    if let Ok(Ok(ok)) = &res {
                        match asked_keysends.iter_mut().find(|x| x.0 == hash) {
                            Some(x) => x.2 = x.2 || *ok,
                            None => asked_keysends.push((hash, a, *ok)),
                        }
                    }
                    match res {
                        // an approval repeated for a payment that was already approved (and counted then) is not a
                        // new amount; everything else that is answered "approved" is
                        Ok(Ok(true)) if repeat_of_approved => r.count("layer2.keysend.repeat_confirmed"),
                        Ok(Ok(true)) => {
                            r.count("layer2.keysend.accepted");
                            since_restart_pay += 1;
                            if let Some(sum) = pay_w.accept(now, a) {
                                let sig = if reconfigured == "fee" {
                                    "payment-velocity:window-exceeded-after-restart-that-reconfigured-the-fee-control"
                                } else if world.restarts > 0 && since_restart_pay <= 1000 {
                                    "payment-velocity:window-exceeded-after-restart"
                                } else {
                                    "payment-velocity:window-exceeded"
                                };
                                r.violation(sig, json!({"layer": 2, "op": "add_keysend", "limit_msat": pay_limit, "hourly": hourly, "t": now, "amount": a, "window_sum": sum.to_string(), "restarts": world.restarts, "trace_tail": trace.iter().rev().take(12).collect::<Vec<_>>() }));
                            }
                            if trace.len() < 200 { trace.push(json!(["keysend", now, a, true])); }
                        }
                        Ok(Ok(false)) => { r.count("layer2.keysend.refused"); if trace.len() < 200 { trace.push(json!(["keysend", now, a, false])); } }
                        Ok(Err(_)) => r.count("layer2.keysend.error"),
                        Err(p) => { r.count("layer2.keysend.panic"); r.note(&format!("add_keysend panicked: {}", p)); let _ = world.restart(); }
                    }
                    r.distinct_hash(vls_verif::rng::fnv_str(&format!("l2:keysend:{}:{}", world.restarts.min(3), a > pay_limit)));
                }
                1 => {
                    let a = gen_amount(rng, pay_limit).min(2_000_000_000_000_000); // bolt11 amount encodable
                    let mut a = a.max(1);
                    let mut inv = make_invoice(now, n, a);
                    let mut repeat_of_approved = false;
                    let mut key = n;
                    if !asked_invoices.is_empty() && rng.chance(1, 4) {
                        let back = 1 + rng.usize(asked_invoices.len().min(4));
                        let (k0, i0, a0, ok0): (u64, Invoice, u64, bool) = asked_invoices[asked_invoices.len() - back].clone();
                        key = k0;
                        inv = i0;
                        a = a0;
                        repeat_of_approved = ok0;
                        r.count(if ok0 { "layer2.invoice.repeat_of_approved" } else { "layer2.invoice.repeat_of_refused" });
                    }
                    let inv_copy = inv.clone();
                    let res = report::catch(|| world.node.add_invoice(inv));
                    if let Ok(Ok(ok)) = &res {
                        match asked_invoices.iter_mut().find(|x| x.0 == key) {
                            Some(x) => x.3 = x.3 || *ok,
                            None => asked_invoices.push((key, inv_copy, a, *ok)),
                        }
                    }
                    match res {
                        Ok(Ok(true)) if repeat_of_approved => r.count("layer2.invoice.repeat_confirmed"),
                        Ok(Ok(true)) => {
                            r.count("layer2.invoice.accepted");
                            since_restart_pay += 1;
                            if let Some(sum) = pay_w.accept(now, a) {
                                let sig = if reconfigured == "fee" { "payment-velocity:window-exceeded-after-restart-that-reconfigured-the-fee-control" } else if world.restarts > 0 { "payment-velocity:window-exceeded-after-restart" } else { "payment-velocity:window-exceeded" };
                                r.violation(sig, json!({"layer": 2, "op": "add_invoice", "limit_msat": pay_limit, "hourly": hourly, "t": now, "amount": a, "window_sum": sum.to_string(), "restarts": world.restarts, "trace_tail": trace.iter().rev().take(12).collect::<Vec<_>>() }));
                            }
                            if trace.len() < 200 { trace.push(json!(["invoice", now, a, true])); }
                        }
                        Ok(Ok(false)) => { r.count("layer2.invoice.refused"); if trace.len() < 200 { trace.push(json!(["invoice", now, a, false])); } }
                        Ok(Err(_)) => r.count("layer2.invoice.error"),
                        Err(p) => { r.count("layer2.invoice.panic"); r.note(&format!("add_invoice panicked: {}", p)); let _ = world.restart(); }
                    }
                    r.distinct_hash(vls_verif::rng::fnv_str(&format!("l2:invoice:{}:{}", world.restarts.min(3), a > pay_limit)));
                }
                2 => {
                    // fee: keep the fee rate legal (tx weight ~ 440wu + witness estimate; max 333_333 sat/kw)
                    let fee_sat = match rng.below(6) { 0 => 0, 1 => 1, 2 => (fee_limit / 1000).min(100_000), _ => rng.range(120, 100_000) };
                    let value = 10_000_000 + rng.below(1_000_000);
                    let (tx, prev_outs, opaths) = make_wallet_tx(&world, (n % 100_000) as u32, value, fee_sat);
                    let res = report::catch(|| world.node.check_onchain_tx(&tx, &[true], &prev_outs, &[None], &opaths));
                    match res {
                        Ok(Ok(())) => {
                            r.count("layer2.onchain.accepted");
                            since_restart_fee += 1;
                            if let Some(sum) = fee_w.accept(now, fee_sat * 1000) {
                                let sig = if reconfigured == "payment" { "fee-velocity:window-exceeded-after-restart-that-reconfigured-the-payment-control" } else if world.restarts > 0 { "fee-velocity:window-exceeded-after-restart" } else { "fee-velocity:window-exceeded" };
                                r.violation(sig, json!({"layer": 2, "op": "check_onchain_tx", "limit_msat": fee_limit, "hourly": fee_hourly, "t": now, "fee_msat": fee_sat * 1000, "window_sum": sum.to_string(), "restarts": world.restarts, "approvals_since_restart": since_restart_fee, "trace_tail": trace.iter().rev().take(12).collect::<Vec<_>>() }));
                            }
                            if trace.len() < 200 { trace.push(json!(["onchain", now, fee_sat * 1000, true])); }
                        }
                        Ok(Err(e)) => { r.count("layer2.onchain.refused"); r.set_add("onchain_refusal", &format!("{:?}", e).chars().take(90).collect::<String>()); if trace.len() < 200 { trace.push(json!(["onchain", now, fee_sat * 1000, false])); } }
                        Err(p) => { r.count("layer2.onchain.panic"); r.note(&format!("check_onchain_tx panicked: {}", p)); let _ = world.restart(); }
                    }
                    r.distinct_hash(vls_verif::rng::fnv_str(&format!("l2:onchain:{}:{}", world.restarts.min(3), fee_sat * 1000 > fee_limit)));
                }
                3 => {
                    // one restart in three comes with a changed configuration of exactly ONE of the two controls
                    // (another limit, or the other interval type): that control starts over, as `update_spec`
                    // documents, and the other one - whose configuration is what it was - must keep what it counted
                    reconfigured = "";
                    if rng.chance(1, 3) {
                        if rng.bool() {
                            reconfigured = "fee";
                            if rng.bool() { fee_limit = rng.range(500_000, 200_000_000); } else { fee_hourly = !fee_hourly; }
                            world.cfg.policy.fee_velocity_control = VelocityControlSpec {
                                limit_msat: fee_limit,
                                interval_type: if fee_hourly { VelocityControlIntervalType::Hourly } else { VelocityControlIntervalType::Daily },
                            };
                            let t = if fee_hourly { (300, 12) } else { (3600, 24) };
                            fb = t.0; fnb = t.1;
                            fee_w = Window::new(fee_limit, fb, fnb);
                        } else {
                            reconfigured = "payment";
                            if rng.bool() { pay_limit = rng.range(10_000, 5_000_000); } else { hourly = !hourly; }
                            world.cfg.policy.global_velocity_control = VelocityControlSpec {
                                limit_msat: pay_limit,
                                interval_type: if hourly { VelocityControlIntervalType::Hourly } else { VelocityControlIntervalType::Daily },
                            };
                            let t = if hourly { (300, 12) } else { (3600, 24) };
                            pb = t.0; pn = t.1;
                            pay_w = Window::new(pay_limit, pb, pn);
                        }
                        r.count(&format!("layer2.restart.reconfigured_{}", reconfigured));
                    }
                    match world.restart() {
                        Ok(()) => { r.count("layer2.restart"); since_restart_pay = 0; since_restart_fee = 0; if trace.len() < 200 { trace.push(json!(["restart", now, reconfigured])); } }
                        Err(e) => { r.inconclusive(&format!("restart failed: {}", e)); break; }
                    }
                }
                _ => {
                    let _ = report::catch(|| world.node.get_heartbeat());
                    r.count("layer2.heartbeat");
                }
            }
        }
        if h < 2 {
            r.sample(json!({"layer": 2, "payment_limit_msat": pay_limit, "payment_hourly": hourly, "fee_limit_msat": fee_limit, "fee_hourly": fee_hourly,
                            "first_ops": trace.iter().take(14).collect::<Vec<_>>() }));
        }
    }
}

fn main() {
    let cli = Cli::parse("C12");
    report::install_quiet_panic_hook();
    let start = Instant::now();
    let quick = cli.tier.is_quick();
    let shards = if quick { 16 } else { 64 };
    let (l1_h, l1_s) = if quick { (200, 400) } else { (2_000, 800) };
    let (l2_h, l2_s) = if quick { (12, 400) } else { (120, 800) };
    let mut report = run_sharded("C12", cli.threads, shards, |i, r| {
        let mut rng = Rng::new(cli.seed.wrapping_mul(1_000_003).wrapping_add(i as u64));
        layer1(&mut rng, r, cli.scaled(l1_h), l1_s);
        layer2(&mut rng, r, cli.scaled(l2_h), l2_s);
    });
    report.require("layer1.window_checked", 1000);
    report.require("layer2.keysend.accepted", 50);
    report.require("layer2.invoice.accepted", 50);
    report.require("layer2.onchain.accepted", 50);
    report.require("layer2.restart", 20);
    report.require("layer2.restart.reconfigured_fee", 3);
    report.require("layer2.restart.reconfigured_payment", 3);
    finish(
        report,
        FinishSpec {
            cli: &cli,
            level: "exploration",
            rule: "random non-decreasing timestamp/amount sequences on VelocityControl (hourly/daily/unlimited/custom intervals) and on a real Node (add_keysend, add_invoice, check_onchain_tx, restart - one in three with a changed configuration of exactly one of the two controls, which starts that control over and must leave the other one's window alone -, heartbeat) under a manual clock; oracle = sum of accepted amounts in the closed window [t-(N-1)*bucket, t] <= limit after every acceptance. distinct = (layer, control kind/op, bucket count or restart count, bucket phase, amount class, outcome)",
            assumptions: vec![
                "timestamps are non-decreasing (as the property states)".into(),
                "unlimited controls are not 'a limit configured' and are only exercised, not judged".into(),
            ],
            start,
            extra_coverage: Default::default(),
        },
    );
}
