//! C04 — commitment signatures bind to the BOLT-3 transaction of the validated content.
//!
//! Workload: random channel setups (commitment type, direction, delays, counterparty key sets,
//! funding outpoints, values) on a real `Node`; the counterparty's per-commitment secrets come from
//! a harness-held seed so that revocations verify and the channel can be driven to commitment
//! numbers n > 0 (optionally after a jump to a large number).  For the target commitment a random
//! content (balances, feerate, 0..12 HTLCs with duplicates and values around the trim limit).
//!
//! Monitors:
//!  * semantic entry point `Channel::sign_counterparty_commitment_tx_phase2` — for every Ok the
//!    harness builds the counterparty commitment transaction and the HTLC transactions itself from
//!    harness-held parameters (the setup it sent, the basepoints the stub returned, the point it
//!    supplied) with LDK `chan_utils` primitives, computes the sighashes with rust-bitcoin and
//!    verifies the commitment signature under the channel's funding pubkey and every HTLC signature
//!    under the derived holder HTLC key (SIGHASH_ALL, or SINGLE|ANYONECANPAY with anchors).
//!  * raw entry point `Channel::sign_counterparty_commitment_tx`, every call on a fresh signer
//!    restored from a copy of the same pre-state store: (1) canonical tx + witscripts must be Ok
//!    with the same signature; (2) single-field mutations of the transaction, the witscripts and the
//!    arguments: Ok is allowed only if the supplied transaction is byte-identical to the canonical
//!    transaction of (supplied arguments, balances the supplied transaction itself carries on the
//!    to_local / to_remote outputs); whenever Ok the signature must verify against that transaction.

use lightning_signer::bitcoin::absolute::LockTime;
use lightning_signer::bitcoin::bip32::DerivationPath;
use lightning_signer::bitcoin::consensus::encode::serialize_hex;
use lightning_signer::bitcoin::hashes::Hash;
use lightning_signer::bitcoin::secp256k1::ecdsa::Signature;
use lightning_signer::bitcoin::secp256k1::{All, Message, PublicKey, Secp256k1, SecretKey};
use lightning_signer::bitcoin::sighash::{EcdsaSighashType, SighashCache};
use lightning_signer::bitcoin::transaction::Version;
use lightning_signer::bitcoin::{
    Amount, CompressedPublicKey, OutPoint, ScriptBuf, Sequence, Transaction, TxOut, Txid, Witness,
};
use lightning_signer::channel::{ChannelId, ChannelSetup, CommitmentType};
use lightning_signer::lightning::chain::transaction::OutPoint as LnOutPoint;
use lightning_signer::lightning::ln::chan_utils::{
    build_htlc_transaction, get_htlc_redeemscript, get_revokeable_redeemscript,
    get_to_countersignatory_with_anchors_redeemscript, make_funding_redeemscript,
    ChannelPublicKeys, ChannelTransactionParameters, CommitmentTransaction,
    CounterpartyChannelTransactionParameters, HTLCOutputInCommitment, TxCreationKeys,
};
use lightning_signer::lightning::ln::channel_keys::{
    DelayedPaymentBasepoint, HtlcBasepoint, RevocationBasepoint,
};
use lightning_signer::lightning::types::features::ChannelTypeFeatures;
use lightning_signer::lightning::types::payment::PaymentHash;
use lightning_signer::node::Node;
use lightning_signer::policy::filter::{FilterRule, PolicyFilter};
use lightning_signer::tx::tx::HTLCInfo2;
use lightning_signer::util::status::Status;
use lightning_signer::util::test_utils::build_tx_scripts;
use serde_json::{json, Value};
use std::collections::BTreeMap;
use std::sync::Arc;
use std::time::Instant;
use vls_verif::oracle::commitment_secret;
use vls_verif::report::{self, finish, run_sharded, FinishSpec};
use vls_verif::rng::fnv_str;
use vls_verif::world::{World, WorldCfg};
use vls_verif::{Cli, Report, Rng};

const INITIAL_COMMITMENT_NUMBER: u64 = (1 << 48) - 1;

// ---------------------------------------------------------------------------------------------
// case description (everything needed to replay)

#[derive(Clone)]
struct Content {
    feerate: u32,
    to_holder: u64,
    to_cp: u64,
    offered: Vec<HTLCInfo2>,
    received: Vec<HTLCInfo2>,
}

#[derive(Clone)]
struct Spec {
    node_seed: [u8; 32],
    lax_trim: bool,
    dbid: u64,
    peer_id: [u8; 33],
    ctype: CommitmentType,
    is_outbound: bool,
    holder_delay: u16,
    cp_delay: u16,
    cp_secrets: [[u8; 32]; 5],
    funding_txid: [u8; 32],
    funding_vout: u32,
    channel_value: u64,
    cp_seed: [u8; 32],
    /// commitment number reached with the test-only counter setters before the regular rounds
    jump_to: Option<u64>,
    /// number of regular (sign, revoke previous) rounds before the target
    rounds: u64,
    target_n: u64,
    retry: bool,
    keysend: bool,
    content: Content,
}

fn htlc_json(h: &HTLCInfo2) -> Value {
    json!({"value_sat": h.value_sat, "payment_hash": hex::encode(h.payment_hash.0), "cltv_expiry": h.cltv_expiry})
}

fn content_json(c: &Content) -> Value {
    json!({"feerate_per_kw": c.feerate, "to_holder_value_sat": c.to_holder, "to_counterparty_value_sat": c.to_cp,
           "offered_htlcs": c.offered.iter().map(htlc_json).collect::<Vec<_>>(),
           "received_htlcs": c.received.iter().map(htlc_json).collect::<Vec<_>>()})
}

fn spec_json(s: &Spec) -> Value {
    json!({
        "node_seed": hex::encode(s.node_seed), "policy": if s.lax_trim { "regtest default + warn-only policy-commitment-outputs-trimmed" } else { "regtest default" },
        "dbid": s.dbid, "peer_id": hex::encode(s.peer_id),
        "commitment_type": format!("{:?}", s.ctype), "is_outbound": s.is_outbound,
        "holder_selected_contest_delay": s.holder_delay, "counterparty_selected_contest_delay": s.cp_delay,
        "counterparty_secret_keys_[funding,revocation,payment,delayed,htlc]": s.cp_secrets.iter().map(hex::encode).collect::<Vec<_>>(),
        "funding_txid_bytes": hex::encode(s.funding_txid), "funding_vout": s.funding_vout,
        "channel_value_sat": s.channel_value, "push_value_msat": 0,
        "counterparty_commitment_seed": hex::encode(s.cp_seed),
        "jump_to_commitment_number_with_test_setters": s.jump_to, "regular_rounds_before_target": s.rounds,
        "target_commitment_number": s.target_n, "retry_of_already_signed": s.retry, "keysend_registered_for_outgoing": s.keysend,
        "content": content_json(&s.content),
    })
}

// ---------------------------------------------------------------------------------------------
// generators

fn secret_key(bytes: &[u8; 32]) -> SecretKey {
    match SecretKey::from_slice(bytes) {
        Ok(k) => k,
        Err(_) => SecretKey::from_slice(&[0x11; 32]).unwrap(),
    }
}

fn is_zero_fee(ct: CommitmentType) -> bool {
    ct == CommitmentType::AnchorsZeroFeeHtlc
}

fn commit_weight(ct: CommitmentType, nhtlc: usize) -> u64 {
    (if is_zero_fee(ct) { 1124 } else { 724 }) + 172 * nhtlc as u64
}

/// the limit below which vls refuses an HTLC as "should have been trimmed"
fn trim_limit(ct: CommitmentType, feerate: u32, offered: bool) -> u64 {
    if is_zero_fee(ct) {
        354
    } else {
        330 + feerate as u64 * (if offered { 663 } else { 703 }) / 1000
    }
}

fn gen_cltv(rng: &mut Rng) -> u32 {
    match rng.weighted(&[4, 30, 30, 25, 8, 2, 1]) {
        0 => rng.range(1, 127) as u32,
        1 => rng.range(128, 32_767) as u32,
        2 => rng.range(32_768, 8_388_607) as u32,
        3 => rng.range(8_388_608, 499_999_999) as u32,
        4 => *rng.pick(&[127u32, 128, 255, 256, 32_767, 32_768, 65_535, 65_536, 8_388_607, 8_388_608, 499_999_999]),
        5 => 0,
        _ => rng.range(500_000_000, u32::MAX as u64) as u32,
    }
}

fn gen_content(rng: &mut Rng, ct: CommitmentType, is_outbound: bool, value: u64, n: u64) -> Content {
    let nh = if n == 0 {
        if rng.chance(1, 12) { 1 } else { 0 }
    } else {
        match rng.weighted(&[12, 14, 14, 30, 30]) {
            0 => 0,
            1 => 1,
            2 => 2,
            3 => rng.range(3, 6) as usize,
            _ => rng.range(7, 12) as usize,
        }
    };
    let feerate: u32 = match rng.weighted(&[40, 30, 3, 5, 15, 2]) {
        0 => rng.range(253, 2_000) as u32,
        1 => rng.range(2_000, 20_000) as u32,
        2 => 0,
        3 => rng.range(1, 252) as u32,
        4 => rng.range(20_000, 100_000) as u32,
        _ => rng.range(100_000, u32::MAX as u64) as u32,
    };
    let mut htlcs: Vec<(bool, HTLCInfo2)> = vec![];
    for _ in 0..nh {
        let dup = if htlcs.is_empty() { 9 } else { rng.weighted(&[25, 8, 5, 5, 57]) };
        let h = match dup {
            0 => htlcs[rng.usize(htlcs.len())].clone(), // exact duplicate
            1 => {
                let (o, mut h) = htlcs[rng.usize(htlcs.len())].clone();
                h.cltv_expiry = if rng.bool() { h.cltv_expiry.wrapping_add(1) } else { gen_cltv(rng) };
                (o, h)
            }
            2 => {
                let (o, mut h) = htlcs[rng.usize(htlcs.len())].clone();
                h.value_sat = h.value_sat + rng.range(1, 1000);
                (o, h)
            }
            3 => {
                let (o, h) = htlcs[rng.usize(htlcs.len())].clone();
                (!o, h)
            }
            _ => {
                let offered = rng.bool();
                let lim = trim_limit(ct, feerate, offered);
                let v = match rng.weighted(&[35, 25, 30, 10]) {
                    0 => match rng.below(5) {
                        0 => lim.saturating_sub(1),
                        1 => lim,
                        2 => lim + 1,
                        3 => lim.saturating_sub(rng.range(2, 40)),
                        _ => lim + rng.range(2, 50),
                    },
                    1 => rng.range(400, 5_000),
                    2 => rng.range(5_000, 200_000),
                    _ => rng.range(200_000, 4_000_000.min(value / 4).max(200_001)),
                };
                (offered, HTLCInfo2 { value_sat: v, payment_hash: PaymentHash(rng.bytes::<32>()), cltv_expiry: gen_cltv(rng) })
            }
        };
        htlcs.push(h);
    }
    // fee from a plausible feerate so that a healthy fraction passes policy-commitment-fee-range
    let fee_rate = match rng.weighted(&[80, 10, 10]) {
        0 => (feerate as u64).clamp(300, 300_000),
        1 => feerate as u64,
        _ => rng.range(0, 400_000),
    };
    let mut fee;
    loop {
        fee = fee_rate * commit_weight(ct, htlcs.len()) / 1000 + if is_zero_fee(ct) { 660 } else { 0 };
        let sum: u64 = htlcs.iter().map(|h| h.1.value_sat).sum();
        if sum.saturating_add(fee) <= value || htlcs.is_empty() {
            break;
        }
        htlcs.pop();
    }
    let sum: u64 = htlcs.iter().map(|h| h.1.value_sat).sum();
    let rest = value.saturating_sub(sum).saturating_sub(fee);
    let (mut to_holder, mut to_cp) = if n == 0 && is_outbound && !rng.chance(1, 10) {
        (rest, 0)
    } else {
        match rng.weighted(&[50, 10, 10, 10, 10, 10]) {
            0 => {
                let a = rng.range(0, rest);
                (a, rest - a)
            }
            1 => (0, rest),
            2 => (rest, 0),
            3 => {
                let a = rng.range(352, 356).min(rest);
                (a, rest - a)
            }
            4 => {
                let a = rng.range(352, 356).min(rest);
                (rest - a, a)
            }
            _ => (rest / 2, rest - rest / 2),
        }
    };
    if rng.chance(8, 100) {
        // inconsistent balances: the implied fee moves
        let d = rng.range(1, 5_000);
        match rng.below(4) {
            0 => to_holder = to_holder.saturating_add(d),
            1 => to_holder = to_holder.saturating_sub(d),
            2 => to_cp = to_cp.saturating_add(d),
            _ => to_cp = to_cp.saturating_sub(d),
        }
    }
    rng.shuffle(&mut htlcs);
    let offered = htlcs.iter().filter(|h| h.0).map(|h| h.1.clone()).collect();
    let received = htlcs.iter().filter(|h| !h.0).map(|h| h.1.clone()).collect();
    Content { feerate, to_holder, to_cp, offered, received }
}

/// content of the commitments signed on the way to the target: no HTLCs, sane fee
fn prefix_content(s: &Spec, n: u64) -> Content {
    let fee = 1000 * commit_weight(s.ctype, 0) / 1000 + if is_zero_fee(s.ctype) { 660 } else { 0 };
    let rest = s.channel_value.saturating_sub(fee);
    let (to_holder, to_cp) = if n == 0 && s.is_outbound {
        (rest, 0)
    } else if n == 0 {
        (0, rest)
    } else {
        let a = (rest / 7) * (1 + (n % 5));
        (a, rest - a)
    };
    Content { feerate: 1000, to_holder, to_cp, offered: vec![], received: vec![] }
}

fn gen_spec(rng: &mut Rng) -> Spec {
    let ctype = match rng.weighted(&[46, 46, 4, 4]) {
        0 => CommitmentType::StaticRemoteKey,
        1 => CommitmentType::AnchorsZeroFeeHtlc,
        2 => CommitmentType::Anchors,
        _ => CommitmentType::Legacy,
    };
    let delay = |rng: &mut Rng| -> u16 {
        match rng.weighted(&[70, 8, 8, 4, 4, 6]) {
            0 => rng.range(4, 2016) as u16,
            1 => 4,
            2 => 2016,
            3 => rng.range(0, 3) as u16,
            4 => rng.range(2017, 65_535) as u16,
            _ => rng.range(5, 300) as u16,
        }
    };
    let holder_delay = delay(rng);
    let mut cp_delay = delay(rng);
    if cp_delay == holder_delay && rng.chance(9, 10) {
        cp_delay = if cp_delay >= 2016 { cp_delay - 1 } else { cp_delay + 1 };
    }
    let channel_value = match rng.weighted(&[50, 25, 15, 6, 2, 2]) {
        0 => rng.range(100_000, 16_000_000),
        1 => rng.range(20_000, 100_000),
        2 => rng.range(16_000_000, 1_000_000_001),
        3 => 1_000_000_001,
        4 => rng.range(1_000_000_002, 5_000_000_000),
        _ => rng.range(2_000, 20_000),
    };
    let funding_vout = match rng.weighted(&[60, 24, 10, 5, 1]) {
        0 => rng.below(4) as u32,
        1 => rng.below(300) as u32,
        2 => rng.below(65_536) as u32,
        3 => 65_535,
        // outside the BOLT-2 domain (funding_output_index is u16): observed, not judged
        _ => 65_536 + rng.below(1 << 20) as u32,
    };
    let is_outbound = rng.bool();
    let (jump_to, rounds) = match rng.weighted(&[15, 30, 20, 12, 23]) {
        0 => (None, 0),
        1 => (None, 1),
        2 => (None, 2),
        3 => (None, rng.range(3, 6)),
        _ => {
            let mut target = match rng.below(8) {
                0 => (1u64 << 24) - rng.range(1, 2),
                1 => (1u64 << 24) + rng.below(2),
                2 => (1u64 << 32) - rng.range(0, 2),
                3 => (1u64 << 47) + rng.below(1 << 20),
                4 => INITIAL_COMMITMENT_NUMBER - rng.range(1, 40),
                5 => rng.range(40, 1 << 16),
                6 => (1u64 << (8 * rng.range(1, 5))) - 1 + rng.below(2) + 40 * ((rng.below(2) == 0) as u64),
                _ => rng.range(40, INITIAL_COMMITMENT_NUMBER - 40),
            };
            // The counterparty-secret store of a channel that never saw the earlier revocations
            // only accepts an aligned run: the first revoked number (base - 1) must be a multiple
            // of 16, which leaves room for 15 revocations.
            let mut rounds = (target - 2) % 16;
            if rounds == 15 {
                target += 1;
                rounds = 0;
            }
            (Some(target - 1 - rounds), rounds)
        }
    };
    let target_n = match jump_to {
        None => rounds,
        Some(b) => b + 1 + rounds,
    };
    let mut peer_id = [2u8; 33];
    peer_id[1..].copy_from_slice(&rng.bytes::<32>());
    let content = gen_content(rng, ctype, is_outbound, channel_value, target_n);
    Spec {
        node_seed: rng.bytes::<32>(),
        lax_trim: rng.chance(10, 100),
        dbid: rng.range(1, 1 << 40),
        peer_id,
        ctype,
        is_outbound,
        holder_delay,
        cp_delay,
        cp_secrets: [rng.bytes::<32>(), rng.bytes::<32>(), rng.bytes::<32>(), rng.bytes::<32>(), rng.bytes::<32>()],
        funding_txid: rng.bytes::<32>(),
        funding_vout,
        channel_value,
        cp_seed: rng.bytes::<32>(),
        jump_to,
        rounds,
        target_n,
        retry: rng.chance(7, 100),
        keysend: !rng.chance(6, 100),
        content,
    }
}

// ---------------------------------------------------------------------------------------------
// the independent reference: BOLT-3 transaction from harness-held parameters

struct Ctx {
    secp: Secp256k1<All>,
    setup: ChannelSetup,
    holder: ChannelPublicKeys,
    id: ChannelId,
    cp_seed: [u8; 32],
}

impl Ctx {
    fn point(&self, n: u64) -> PublicKey {
        PublicKey::from_secret_key(&self.secp, &self.secret(n))
    }
    fn secret(&self, n: u64) -> SecretKey {
        secret_key(&commitment_secret(&self.cp_seed, n))
    }
    fn features(&self) -> ChannelTypeFeatures {
        let mut f = ChannelTypeFeatures::empty();
        f.set_static_remote_key_required();
        if is_zero_fee(self.setup.commitment_type) {
            f.set_anchors_zero_fee_htlc_tx_required();
        }
        f
    }
    fn params(&self) -> ChannelTransactionParameters {
        ChannelTransactionParameters {
            holder_pubkeys: self.holder.clone(),
            holder_selected_contest_delay: self.setup.holder_selected_contest_delay,
            is_outbound_from_holder: self.setup.is_outbound,
            counterparty_parameters: Some(CounterpartyChannelTransactionParameters {
                pubkeys: self.setup.counterparty_points.clone(),
                selected_contest_delay: self.setup.counterparty_selected_contest_delay,
            }),
            funding_outpoint: Some(LnOutPoint {
                txid: self.setup.funding_outpoint.txid,
                index: self.setup.funding_outpoint.vout as u16,
            }),
            channel_type_features: self.features(),
        }
    }
    /// keys of the counterparty's commitment: broadcaster = counterparty, countersignatory = holder
    fn tx_keys(&self, point: &PublicKey) -> TxCreationKeys {
        let cp = &self.setup.counterparty_points;
        TxCreationKeys::derive_new(
            &self.secp,
            point,
            &cp.delayed_payment_basepoint,
            &cp.htlc_basepoint,
            &self.holder.revocation_basepoint,
            &self.holder.htlc_basepoint,
        )
    }
    fn funding_redeemscript(&self) -> ScriptBuf {
        make_funding_redeemscript(&self.holder.funding_pubkey, &self.setup.counterparty_points.funding_pubkey)
    }
    /// scriptPubkey of the output paying the holder (to_remote of the counterparty's commitment)
    fn spk_to_holder(&self) -> ScriptBuf {
        if is_zero_fee(self.setup.commitment_type) {
            get_to_countersignatory_with_anchors_redeemscript(&self.holder.payment_point).to_p2wsh()
        } else {
            ScriptBuf::new_p2wpkh(&CompressedPublicKey(self.holder.payment_point).wpubkey_hash())
        }
    }
    /// scriptPubkey of the output paying the counterparty (to_local, revocable, delayed by the
    /// delay the holder selected)
    fn spk_to_cp(&self, keys: &TxCreationKeys) -> ScriptBuf {
        get_revokeable_redeemscript(
            &keys.revocation_key,
            self.setup.holder_selected_contest_delay,
            &keys.broadcaster_delayed_payment_key,
        )
        .to_p2wsh()
    }
}

struct Canon {
    tx: Transaction,
    txid: Txid,
    witscripts: Vec<Vec<u8>>,
    htlcs: Vec<HTLCOutputInCommitment>,
    keys: TxCreationKeys,
}

fn to_oic(offered: &[HTLCInfo2], received: &[HTLCInfo2]) -> Vec<HTLCOutputInCommitment> {
    let mut v = vec![];
    for (o, list) in [(true, offered), (false, received)] {
        for h in list {
            v.push(HTLCOutputInCommitment {
                offered: o,
                amount_msat: h.value_sat.saturating_mul(1000),
                cltv_expiry: h.cltv_expiry,
                payment_hash: h.payment_hash,
                transaction_output_index: None,
            });
        }
    }
    v
}

fn build_canon(
    ctx: &Ctx,
    point: &PublicKey,
    n: u64,
    feerate: u32,
    offered: &[HTLCInfo2],
    received: &[HTLCInfo2],
    to_holder: u64,
    to_cp: u64,
) -> Canon {
    let keys = ctx.tx_keys(point);
    let params = ctx.params();
    let directed = params.as_counterparty_broadcastable();
    let oic = to_oic(offered, received);
    let mut aux: Vec<(HTLCOutputInCommitment, ())> = oic.iter().map(|h| (h.clone(), ())).collect();
    let cp = &ctx.setup.counterparty_points;
    let ctx_tx = CommitmentTransaction::new_with_auxiliary_htlc_data(
        INITIAL_COMMITMENT_NUMBER - n,
        to_cp,
        to_holder,
        cp.funding_pubkey,
        ctx.holder.funding_pubkey,
        keys.clone(),
        feerate,
        &mut aux,
        &directed,
    );
    let trusted = ctx_tx.trust();
    let built = trusted.built_transaction();
    let scripts =
        build_tx_scripts(&keys, to_cp, to_holder, &oic, &directed, &cp.funding_pubkey, &ctx.holder.funding_pubkey)
            .expect("scripts");
    Canon {
        tx: built.transaction.clone(),
        txid: built.txid,
        witscripts: scripts.iter().map(|s| s.as_bytes().to_vec()).collect(),
        htlcs: ctx_tx.htlcs().clone(),
        keys,
    }
}

fn verify_commit_sig(ctx: &Ctx, tx: &Transaction, sig: &Signature) -> bool {
    let sighash = match SighashCache::new(tx).p2wsh_signature_hash(
        0,
        &ctx.funding_redeemscript(),
        Amount::from_sat(ctx.setup.channel_value_sat),
        EcdsaSighashType::All,
    ) {
        Ok(h) => h,
        Err(_) => return false,
    };
    let msg = Message::from_digest(sighash.to_byte_array());
    ctx.secp.verify_ecdsa(&msg, sig, &ctx.holder.funding_pubkey).is_ok()
}

/// Ok(true) verified, Ok(false) does not verify, Err = the BOLT-3 HTLC transaction cannot be built
fn verify_htlc_sig(ctx: &Ctx, canon: &Canon, feerate: u32, i: usize, sig: &Signature) -> Result<bool, String> {
    let htlc = &canon.htlcs[i];
    let features = ctx.features();
    let keys = &canon.keys;
    let htlc_tx = report::catch(|| {
        build_htlc_transaction(
            &canon.txid,
            feerate,
            ctx.setup.holder_selected_contest_delay,
            htlc,
            &features,
            &keys.broadcaster_delayed_payment_key,
            &keys.revocation_key,
        )
    })?;
    // the HTLC transaction must spend the HTLC's own output of the canonical commitment
    let vout = htlc.transaction_output_index.ok_or("no output index")?;
    if htlc_tx.input.len() != 1 || htlc_tx.input[0].previous_output != (OutPoint { txid: canon.txid, vout }) {
        return Err("htlc tx does not spend the htlc output".into());
    }
    let redeem = get_htlc_redeemscript(htlc, &features, keys);
    if canon.tx.output[vout as usize].script_pubkey != redeem.to_p2wsh() {
        return Err("htlc output script mismatch in reference".into());
    }
    let ty = if is_zero_fee(ctx.setup.commitment_type) {
        EcdsaSighashType::SinglePlusAnyoneCanPay
    } else {
        EcdsaSighashType::All
    };
    let sighash = SighashCache::new(&htlc_tx)
        .p2wsh_signature_hash(0, &redeem, htlc.to_bitcoin_amount(), ty)
        .map_err(|e| format!("sighash: {:?}", e))?;
    let msg = Message::from_digest(sighash.to_byte_array());
    Ok(ctx.secp.verify_ecdsa(&msg, sig, &keys.countersignatory_htlc_key.to_public_key()).is_ok())
}

// ---------------------------------------------------------------------------------------------
// driving the signer

fn reason_tag(st: &Status) -> String {
    // "policy failure: f: g: text with numbers" -> numbers and ids normalised, bounded length
    let m = st.message();
    let m = m.strip_prefix("policy failure: ").unwrap_or(m);
    let m = match m.find(" on channel") {
        Some(p) => &m[..p],
        None => m,
    };
    let mut out = String::new();
    let mut last_hash = false;
    for c in m.chars() {
        if c.is_ascii_digit() {
            if !last_hash {
                out.push('#');
            }
            last_hash = true;
        } else {
            last_hash = false;
            out.push(if c == '\n' { ' ' } else { c });
        }
        if out.len() >= 110 {
            break;
        }
    }
    format!("{:?}: {}", st.code(), out)
}

/// coarse refusal class (for the distinct-situations hash)
fn policy_tag(st: &Status) -> String {
    reason_tag(st).chars().filter(|c| *c != '#').take(72).collect()
}

fn make_setup(s: &Spec, secp: &Secp256k1<All>) -> ChannelSetup {
    let pk = |i: usize| PublicKey::from_secret_key(secp, &secret_key(&s.cp_secrets[i]));
    ChannelSetup {
        is_outbound: s.is_outbound,
        channel_value_sat: s.channel_value,
        push_value_msat: 0,
        funding_outpoint: OutPoint { txid: Txid::from_byte_array(s.funding_txid), vout: s.funding_vout },
        holder_selected_contest_delay: s.holder_delay,
        holder_shutdown_script: None,
        counterparty_points: ChannelPublicKeys {
            funding_pubkey: pk(0),
            revocation_basepoint: RevocationBasepoint(pk(1)),
            payment_point: pk(2),
            delayed_payment_basepoint: DelayedPaymentBasepoint(pk(3)),
            htlc_basepoint: HtlcBasepoint(pk(4)),
        },
        counterparty_selected_contest_delay: s.cp_delay,
        counterparty_shutdown_script: None,
        commitment_type: s.ctype,
    }
}

fn phase2(
    node: &Arc<Node>,
    id: &ChannelId,
    point: &PublicKey,
    n: u64,
    c: &Content,
) -> Result<Result<(Signature, Vec<Signature>), Status>, String> {
    report::catch(|| {
        node.with_channel(id, |chan| {
            chan.sign_counterparty_commitment_tx_phase2(
                point,
                n,
                c.feerate,
                c.to_holder,
                c.to_cp,
                c.offered.clone(),
                c.received.clone(),
            )
        })
    })
}

#[derive(Clone)]
struct RawArgs {
    tx: Transaction,
    ws: Vec<Vec<u8>>,
    point: PublicKey,
    n: u64,
    feerate: u32,
    offered: Vec<HTLCInfo2>,
    received: Vec<HTLCInfo2>,
}

fn raw_json(a: &RawArgs) -> Value {
    json!({"tx": serialize_hex(&a.tx), "output_witscripts": a.ws.iter().map(hex::encode).collect::<Vec<_>>(),
           "remote_per_commitment_point": a.point.to_string(), "commitment_number": a.n, "feerate_per_kw": a.feerate,
           "offered_htlcs": a.offered.iter().map(htlc_json).collect::<Vec<_>>(),
           "received_htlcs": a.received.iter().map(htlc_json).collect::<Vec<_>>()})
}

fn raw(node: &Arc<Node>, id: &ChannelId, a: &RawArgs) -> Result<Result<Signature, Status>, String> {
    report::catch(|| {
        node.with_channel(id, |chan| {
            chan.sign_counterparty_commitment_tx(
                &a.tx,
                &a.ws,
                &a.point,
                a.n,
                a.feerate,
                a.offered.clone(),
                a.received.clone(),
            )
        })
    })
}

/// Build the pre-state world of a case.  Err(reason) = the case ends before the target
/// (refused setup etc.) — not a verdict.
fn build_pre(s: &Spec, r: &mut Report) -> Result<(World, Ctx), String> {
    let mut cfg = WorldCfg::regtest(s.node_seed);
    if s.lax_trim {
        cfg.policy.filter = PolicyFilter { rules: vec![FilterRule::new_warn("policy-commitment-outputs-trimmed")] };
    }
    let world = World::new(cfg);
    let node = world.node.clone();
    let secp = Secp256k1::new();
    let setup = make_setup(s, &secp);
    let (id, _) = node.new_channel(s.dbid, &s.peer_id, &node).map_err(|e| format!("harness:new_channel: {:?}", e))?;
    let holder = node
        .with_channel_base(&id, |b| Ok(b.get_channel_basepoints()))
        .map_err(|e| format!("harness:basepoints: {:?}", e))?;
    // every third channel also gets a permanent id (the temporary-to-permanent flow of LDK-style nodes);
    // the channel's keys must stay those of its initial id, also on the signers restored from the store
    let permanent = if s.dbid % 3 == 0 {
        let mut b = [0x70u8; 32];
        b[..8].copy_from_slice(&s.dbid.to_le_bytes());
        b[8..16].copy_from_slice(&s.peer_id[1..9]);
        r.count("setup.with_permanent_channel_id");
        Some(ChannelId::new(&b))
    } else {
        None
    };
    match report::catch(|| node.setup_channel(id.clone(), permanent, setup.clone(), &DerivationPath::master())) {
        Ok(Ok(_)) => r.count(&format!("setup.accepted.{:?}", s.ctype)),
        Ok(Err(e)) => {
            r.count("setup.refused");
            r.set_add("setup_refusals", &reason_tag(&e));
            return Err(format!("setup refused: {}", policy_tag(&e)));
        }
        Err(p) => {
            r.count("setup.panic");
            r.note(&format!("setup_channel panicked: {}", p));
            return Err("setup panic".into());
        }
    }
    let ctx = Ctx { secp, setup, holder, id: id.clone(), cp_seed: s.cp_seed };
    // outgoing payments (HTLCs the counterparty receives) need an approved payment
    if s.keysend {
        let mut per_hash: BTreeMap<[u8; 32], u64> = BTreeMap::new();
        for h in &s.content.received {
            *per_hash.entry(h.payment_hash.0).or_insert(0) += h.value_sat;
        }
        let payee = PublicKey::from_secret_key(&ctx.secp, &secret_key(&[9u8; 32]));
        for (h, v) in per_hash {
            match report::catch(|| node.add_keysend(payee, PaymentHash(h), v.saturating_mul(1000))) {
                Ok(Ok(true)) => r.count("keysend.approved"),
                Ok(Ok(false)) | Ok(Err(_)) => r.count("keysend.refused"),
                Err(p) => r.note(&format!("add_keysend panicked: {}", p)),
            }
        }
    }
    // drive to the target commitment number
    let mut next = 0u64;
    if let Some(base) = s.jump_to {
        let p_prev = ctx.point(base - 1);
        node.with_channel(&id, |chan| {
            chan.set_next_counterparty_commit_num_for_testing(base, p_prev);
            chan.set_next_counterparty_revoke_num_for_testing(base - 1);
            Ok(())
        })
        .map_err(|e| format!("harness:jump: {:?}", e))?;
        // sign `base` (persists the whole enforcement state), then revoke base-1
        let c = prefix_content(s, base);
        match phase2(&node, &id, &ctx.point(base), base, &c) {
            Ok(Ok(_)) => {}
            Ok(Err(e)) => return Err(format!("prefix refused: {}", reason_tag(&e))),
            Err(p) => return Err(format!("prefix panic: {}", p)),
        }
        node.with_channel(&id, |chan| chan.validate_counterparty_revocation(base - 1, &ctx.secret(base - 1)))
            .map_err(|e| format!("prefix revocation refused: {}", reason_tag(&e)))?;
        next = base + 1;
    }
    for _ in 0..s.rounds {
        let c = prefix_content(s, next);
        match phase2(&node, &id, &ctx.point(next), next, &c) {
            Ok(Ok(_)) => {}
            Ok(Err(e)) => return Err(format!("prefix refused: {}", reason_tag(&e))),
            Err(p) => return Err(format!("prefix panic: {}", p)),
        }
        if next > 0 {
            node.with_channel(&id, |chan| chan.validate_counterparty_revocation(next - 1, &ctx.secret(next - 1)))
                .map_err(|e| format!("prefix revocation refused: {}", reason_tag(&e)))?;
            r.count("prefix.revocations");
        }
        next += 1;
    }
    if next != s.target_n {
        return Err("harness:target mismatch".into());
    }
    if s.retry {
        // the target is already signed once with the same content: the calls below are retries
        match phase2(&node, &id, &ctx.point(next), next, &s.content) {
            Ok(Ok(_)) => r.count("prefix.retry_presigned"),
            Ok(Err(_)) => {}
            Err(p) => return Err(format!("prefix panic: {}", p)),
        }
    }
    Ok((world, ctx))
}

fn fresh(world: &World, ctx: &Ctx) -> Result<Arc<Node>, String> {
    let (_store, node) = world.crash_copy()?;
    node.with_channel(&ctx.id, |_c| Ok(())).map_err(|e| format!("restored channel missing: {:?}", e))?;
    Ok(node)
}

// ---------------------------------------------------------------------------------------------
// monitors

struct CaseInfo<'a> {
    spec: &'a Spec,
    shard: usize,
    case: u64,
    seed: u64,
}

impl<'a> CaseInfo<'a> {
    fn detail(&self, extra: Value) -> Value {
        json!({"seed": self.seed, "shard": self.shard, "case": self.case, "spec": spec_json(self.spec), "observed": extra})
    }
    fn class(&self) -> String {
        let s = self.spec;
        let nh = s.content.offered.len() + s.content.received.len();
        format!(
            "{:?}:{}:{}:{}:{}",
            s.ctype,
            if s.is_outbound { "out" } else { "in" },
            match (s.jump_to, s.target_n) {
                (Some(_), _) => "big",
                (None, 0) => "n0",
                (None, 1) => "n1",
                _ => "n2+",
            },
            match nh {
                0 => "h0",
                1..=2 => "h1-2",
                3..=6 => "h3-6",
                _ => "h7+",
            },
            if s.retry { "retry" } else { "first" }
        )
    }
}

fn has_duplicates(c: &Content) -> bool {
    let mut v: Vec<(bool, u64, [u8; 32], u32)> = vec![];
    for h in &c.offered {
        v.push((true, h.value_sat, h.payment_hash.0, h.cltv_expiry));
    }
    for h in &c.received {
        v.push((false, h.value_sat, h.payment_hash.0, h.cltv_expiry));
    }
    let n = v.len();
    v.sort();
    v.dedup();
    v.len() != n
}

fn near_trim(s: &Spec) -> bool {
    let c = &s.content;
    c.offered.iter().any(|h| h.value_sat.abs_diff(trim_limit(s.ctype, c.feerate, true)) <= 1)
        || c.received.iter().any(|h| h.value_sat.abs_diff(trim_limit(s.ctype, c.feerate, false)) <= 1)
}

/// Oracle for an Ok of the semantic entry point.  Returns the reference transaction.
fn judge_phase2(
    ci: &CaseInfo,
    ctx: &Ctx,
    node: &Arc<Node>,
    where_: &str,
    sig: &Signature,
    hsigs: &[Signature],
    r: &mut Report,
) -> Canon {
    let s = ci.spec;
    let c = &s.content;
    let point = ctx.point(s.target_n);
    let canon = build_canon(ctx, &point, s.target_n, c.feerate, &c.offered, &c.received, c.to_holder, c.to_cp);
    r.count("oracle.phase2.commit_sig_checked");
    if !verify_commit_sig(ctx, &canon.tx, sig) {
        // diagnosis only: what the code under test says it builds
        let vls_tx = report::catch(|| {
            node.with_channel(&ctx.id, |chan| {
                let t = chan.make_counterparty_commitment_tx(
                    &point,
                    s.target_n,
                    c.feerate,
                    c.to_holder,
                    c.to_cp,
                    to_oic(&c.offered, &c.received),
                );
                Ok(t.trust().built_transaction().transaction.clone())
            })
        });
        let vls_hex = match &vls_tx {
            Ok(Ok(t)) => serialize_hex(t),
            _ => "(unavailable)".into(),
        };
        let on_vls = match &vls_tx {
            Ok(Ok(t)) => verify_commit_sig(ctx, t, sig),
            _ => false,
        };
        r.violation(
            "c04:phase2-sig-does-not-verify-on-canonical-tx",
            ci.detail(json!({"entry": "sign_counterparty_commitment_tx_phase2", "signer": where_,
                "signature": sig.to_string(), "funding_pubkey": ctx.holder.funding_pubkey.to_string(),
                "canonical_tx": serialize_hex(&canon.tx), "tx_built_by_make_counterparty_commitment_tx": vls_hex,
                "signature_verifies_on_that_tx": on_vls})),
        );
    } else {
        r.count("oracle.phase2.commit_sig_verified");
    }
    if hsigs.len() != canon.htlcs.len() {
        r.violation(
            "c04:phase2-htlc-signature-count-mismatch",
            ci.detail(json!({"entry": "sign_counterparty_commitment_tx_phase2", "signer": where_,
                "htlc_signatures": hsigs.len(), "htlc_outputs_in_canonical_tx": canon.htlcs.len()})),
        );
    } else {
        for (i, hs) in hsigs.iter().enumerate() {
            r.count("oracle.phase2.htlc_sig_checked");
            match verify_htlc_sig(ctx, &canon, c.feerate, i, hs) {
                Ok(true) => {
                    r.count("oracle.phase2.htlc_sig_verified");
                    if is_zero_fee(s.ctype) {
                        r.count("oracle.phase2.htlc_sig_verified.single_anyonecanpay");
                    } else {
                        r.count("oracle.phase2.htlc_sig_verified.sighash_all");
                    }
                }
                Ok(false) => r.violation(
                    "c04:htlc-sig-does-not-verify",
                    ci.detail(json!({"entry": "sign_counterparty_commitment_tx_phase2", "signer": where_,
                        "htlc_index_in_output_order": i, "htlc_output_index": canon.htlcs[i].transaction_output_index,
                        "offered": canon.htlcs[i].offered, "amount_msat": canon.htlcs[i].amount_msat,
                        "cltv_expiry": canon.htlcs[i].cltv_expiry, "signature": hs.to_string(),
                        "holder_htlc_key": canon.keys.countersignatory_htlc_key.to_public_key().to_string(),
                        "canonical_commitment_tx": serialize_hex(&canon.tx)})),
                ),
                Err(e) => r.violation(
                    "c04:htlc-sig-for-unbuildable-htlc-tx",
                    ci.detail(json!({"entry": "sign_counterparty_commitment_tx_phase2", "signer": where_,
                        "htlc_index_in_output_order": i, "why": e, "signature": hs.to_string()})),
                ),
            }
        }
    }
    canon
}

/// The same content through the protocol handler (`SignRemoteCommitmentTx2`), on another signer restored from
/// the pre-state store.  On the wire HTLC amounts are in msat: every amount is sent with a random sub-satoshi
/// remainder, which BOLT-3 rounds down, so the canonical transaction - and what the signatures must verify
/// against - is the same as for the semantic entry point.
fn handler_entry(ci: &CaseInfo, ctx: &Ctx, world: &World, rng: &mut Rng, r: &mut Report) {
    use lightning_signer::bitcoin::BlockHash;
    use vls_protocol::model::{self, Bip32KeyVersion, Htlc, PubKey};
    use vls_protocol::msgs::{self, Message};
    use vls_protocol::serde_bolt::Array;
    use vls_protocol_signer::approver::PositiveApprover;
    use vls_protocol_signer::handler::{Handler, InitHandler, RootHandler};
    let s = ci.spec;
    let c = &s.content;
    let node = match fresh(world, ctx) {
        Ok(n) => n,
        Err(_) => return,
    };
    let point = ctx.point(s.target_n);
    let built = report::catch(|| {
        let mut init = InitHandler::new(0, node.clone(), Arc::new(PositiveApprover()), 6);
        init.handle(Message::HsmdInit(msgs::HsmdInit {
            key_version: Bip32KeyVersion { pubkey_version: 0x043587CF, privkey_version: 0x04358394 },
            chain_params: BlockHash::all_zeros(),
            encryption_key: None,
            dev_privkey: None,
            dev_bip32_seed: None,
            dev_channel_secrets: None,
            dev_channel_secrets_shaseed: None,
            hsm_wire_min_version: 2,
            hsm_wire_max_version: 6,
        }))
        .map_err(|e| format!("{:?}", e))?;
        let root: RootHandler = init.into();
        Ok::<_, String>(root.for_new_client(1, PubKey(s.peer_id), s.dbid))
    });
    let handler = match built {
        Ok(Ok(h)) => h,
        _ => {
            r.count("handler.not_built");
            return;
        }
    };
    let mut htlcs = vec![];
    let mut with_remainder = 0;
    // `offered` here is what the counterparty offers (the holder receives): the remote side on the wire
    for (list, side) in [(&c.offered, Htlc::REMOTE), (&c.received, Htlc::LOCAL)] {
        for h in list.iter() {
            let rem = if rng.chance(1, 4) { 0 } else { rng.below(1000) };
            if rem >= 500 {
                with_remainder += 1;
            }
            htlcs.push(Htlc { side, amount: h.value_sat.saturating_mul(1000).saturating_add(rem), payment_hash: model::Sha256(h.payment_hash.0), ctlv_expiry: h.cltv_expiry });
        }
    }
    let msg = Message::SignRemoteCommitmentTx2(msgs::SignRemoteCommitmentTx2 {
        remote_per_commitment_point: PubKey(point.serialize()),
        commitment_number: s.target_n,
        feerate: c.feerate,
        to_local_value_sat: c.to_holder,
        to_remote_value_sat: c.to_cp,
        htlcs: Array(htlcs),
    });
    r.count("handler.requests");
    match report::catch(|| handler.handle(msg)) {
        Ok(Ok(reply)) => {
            if let Some(rep) = reply.as_any().downcast_ref::<msgs::SignCommitmentTxWithHtlcsReply>() {
                let sig = match Signature::from_compact(&rep.signature.signature.0) {
                    Ok(s) => s,
                    Err(_) => {
                        r.count("handler.reply_signature_unparsable");
                        return;
                    }
                };
                let hsigs: Vec<Signature> = rep.htlc_signatures.iter().filter_map(|b| Signature::from_compact(&b.signature.0).ok()).collect();
                r.count("handler.ok");
                if with_remainder > 0 {
                    r.count("handler.ok.with_htlc_msat_remainder_of_half_a_sat_or_more");
                }
                judge_phase2(ci, ctx, &node, "protocol handler (SignRemoteCommitmentTx2, HTLC amounts in msat with sub-satoshi remainders), restored-from-store", &sig, &hsigs, r);
                r.distinct_str(&format!("handler:{}:ok:{}", ci.class(), with_remainder.min(2)));
            } else {
                r.count("handler.unexpected_reply_type");
            }
        }
        Ok(Err(e)) => {
            // phase 2 accepted this content on an identical signer: the handler adds no rule of its own
            r.count("handler.refused_what_phase2_accepted");
            r.set_add("handler_refusals", &format!("{:?}", e).chars().filter(|c| !c.is_ascii_digit()).take(100).collect::<String>());
        }
        Err(p) => {
            r.count("handler.panic");
            r.note(&format!("SignRemoteCommitmentTx2 panicked: {}", p.chars().take(120).collect::<String>()));
        }
    }
}

/// balances a transaction itself carries for the two parties, read by the harness from its own
/// knowledge of the two scripts (first matching output; absent = 0)
fn balances_in_tx(ctx: &Ctx, tx: &Transaction, point: &PublicKey) -> (u64, u64) {
    let keys = ctx.tx_keys(point);
    let h = ctx.spk_to_holder();
    let c = ctx.spk_to_cp(&keys);
    let find = |spk: &ScriptBuf| tx.output.iter().find(|o| &o.script_pubkey == spk).map(|o| o.value.to_sat()).unwrap_or(0);
    (find(&h), find(&c))
}

struct RawOutcome {
    ok: Option<Signature>,
}

/// Oracle for the raw entry point: Ok => supplied tx is byte-identical to the BOLT-3 transaction of
/// (supplied arguments, balances on the supplied tx), and the signature verifies on it.
fn judge_raw(
    ci: &CaseInfo,
    ctx: &Ctx,
    kind: &str,
    a: &RawArgs,
    res: &Result<Result<Signature, Status>, String>,
    canon_orig: Option<&Canon>,
    r: &mut Report,
) -> RawOutcome {
    r.eval(1);
    let identical = canon_orig.map(|c| c.tx == a.tx);
    let idtag = match identical {
        Some(true) => "tx-identical",
        Some(false) => "tx-differs",
        None => "na",
    };
    match res {
        Err(p) => {
            r.count(&format!("raw.{}.panic", kind));
            r.note(&format!("sign_counterparty_commitment_tx panicked ({}): {}", kind, p));
            r.distinct_str(&format!("raw:{}:{}:{}:panic", ci.class(), kind, idtag));
            RawOutcome { ok: None }
        }
        Ok(Err(e)) => {
            r.count(&format!("raw.{}.refused", kind));
            if kind != "canonical" {
                r.count("raw.mutation.refused");
                if identical == Some(false) {
                    r.count("raw.mutation.tx_differs.refused");
                }
            }
            r.set_add("raw_refusals", &format!("{} => {}", kind, policy_tag(e)));
            r.distinct_str(&format!("raw:{}:{}:{}:refused:{}", ci.class(), kind, idtag, policy_tag(e)));
            RawOutcome { ok: None }
        }
        Ok(Ok(sig)) => {
            r.count(&format!("raw.{}.ok", kind));
            r.count("oracle.raw.ok_checked");
            let (to_holder, to_cp) = balances_in_tx(ctx, &a.tx, &a.point);
            let built = report::catch(|| build_canon(ctx, &a.point, a.n, a.feerate, &a.offered, &a.received, to_holder, to_cp));
            let canon2 = match built {
                Ok(c) => c,
                Err(p) => {
                    r.violation(
                        "c04:raw-accepts-tx-with-no-canonical-form",
                        ci.detail(json!({"entry": "sign_counterparty_commitment_tx", "mutation": kind, "call": raw_json(a), "reference_builder": p})),
                    );
                    return RawOutcome { ok: Some(*sig) };
                }
            };
            let on_supplied = verify_commit_sig(ctx, &a.tx, sig);
            let on_canon = verify_commit_sig(ctx, &canon2.tx, sig);
            if canon2.tx != a.tx {
                r.violation(
                    "c04:raw-accepts-noncanonical-tx",
                    ci.detail(json!({"entry": "sign_counterparty_commitment_tx", "mutation": kind, "call": raw_json(a),
                        "canonical_tx_for_these_arguments_and_balances": serialize_hex(&canon2.tx),
                        "balances_read_from_supplied_tx": {"to_holder": to_holder, "to_counterparty": to_cp},
                        "signature": sig.to_string(), "signature_verifies_on_supplied_tx": on_supplied,
                        "signature_verifies_on_canonical_tx": on_canon})),
                );
            } else {
                r.count("oracle.raw.ok_tx_is_canonical");
                if identical == Some(false) {
                    // canonical for a different content (balances moved by the mutation, or an
                    // argument the tx does not depend on)
                    r.count("raw.mutation.ok_canonical_for_shifted_content");
                } else if identical == Some(true) && kind != "canonical" {
                    r.count("raw.mutation.ok_tx_identical");
                }
            }
            if !on_canon {
                r.violation(
                    "c04:raw-sig-does-not-verify-on-canonical-tx",
                    ci.detail(json!({"entry": "sign_counterparty_commitment_tx", "mutation": kind, "call": raw_json(a),
                        "canonical_tx": serialize_hex(&canon2.tx), "signature": sig.to_string(),
                        "funding_pubkey": ctx.holder.funding_pubkey.to_string(),
                        "signature_verifies_on_supplied_tx": on_supplied})),
                );
            } else {
                r.count("oracle.raw.sig_verified");
            }
            r.distinct_str(&format!("raw:{}:{}:{}:ok", ci.class(), kind, idtag));
            RawOutcome { ok: Some(*sig) }
        }
    }
}

// ---------------------------------------------------------------------------------------------
// mutations

fn flip_bit(v: &mut [u8], rng: &mut Rng) {
    if v.is_empty() {
        return;
    }
    let i = rng.usize(v.len());
    v[i] ^= 1 << rng.below(8);
}

fn mutated_script(spk: &ScriptBuf, rng: &mut Rng) -> ScriptBuf {
    let mut b = spk.as_bytes().to_vec();
    flip_bit(&mut b, rng);
    ScriptBuf::from(b)
}

fn other_htlc(rng: &mut Rng) -> HTLCInfo2 {
    HTLCInfo2 { value_sat: rng.range(400, 50_000), payment_hash: PaymentHash(rng.bytes::<32>()), cltv_expiry: rng.range(100, 100_000) as u32 }
}

/// All single-field mutations of the canonical call (a bounded random sample of the per-output ones)
fn mutations(base: &RawArgs, ctx: &Ctx, rng: &mut Rng, per_output_budget: usize) -> Vec<(String, RawArgs)> {
    let mut out: Vec<(String, RawArgs)> = vec![];
    let mut push = |k: &str, a: RawArgs| out.push((k.to_string(), a));
    let nout = base.tx.output.len();

    // --- transaction header and input
    let mut a = base.clone();
    a.tx.version = Version(*rng.pick(&[0i32, 1, 3, -2, 2 | (1 << 30)]));
    push("tx.version", a);
    let mut a = base.clone();
    a.tx.lock_time = LockTime::from_consensus(base.tx.lock_time.to_consensus_u32() ^ (1 << rng.below(32)));
    push("tx.locktime", a);
    let mut a = base.clone();
    a.tx.input[0].sequence = Sequence(base.tx.input[0].sequence.0 ^ (1 << rng.below(32)));
    push("tx.sequence", a);
    let mut a = base.clone();
    let mut t = a.tx.input[0].previous_output.txid.to_byte_array();
    flip_bit(&mut t, rng);
    a.tx.input[0].previous_output.txid = Txid::from_byte_array(t);
    push("tx.outpoint.txid", a);
    let mut a = base.clone();
    let v = base.tx.input[0].previous_output.vout;
    a.tx.input[0].previous_output.vout = match rng.below(3) {
        0 => v.wrapping_add(1),
        1 => v.wrapping_sub(1),
        _ => v ^ (1 << rng.range(16, 31)), // same low 16 bits
    };
    push("tx.outpoint.vout", a);
    let mut a = base.clone();
    a.tx.input[0].script_sig = ScriptBuf::from(vec![0x51]);
    push("tx.input.script_sig", a);
    let mut a = base.clone();
    a.tx.input[0].witness = Witness::from_slice(&[vec![1u8, 2, 3]]);
    push("tx.input.witness", a);
    let mut a = base.clone();
    let mut extra = a.tx.input[0].clone();
    if rng.bool() {
        extra.previous_output.vout ^= 1;
    }
    a.tx.input.push(extra);
    push("tx.input.added", a);
    let mut a = base.clone();
    a.tx.input.clear();
    push("tx.input.removed", a);

    // --- outputs (sampled)
    let mut idx: Vec<usize> = (0..nout).collect();
    rng.shuffle(&mut idx);
    for &o in idx.iter().take(per_output_budget) {
        let mut a = base.clone();
        a.tx.output[o].value = Amount::from_sat(base.tx.output[o].value.to_sat() + 1);
        push("out.value+1", a);
        if base.tx.output[o].value.to_sat() > 0 {
            let mut a = base.clone();
            a.tx.output[o].value = Amount::from_sat(base.tx.output[o].value.to_sat() - 1);
            push("out.value-1", a);
        }
        let mut a = base.clone();
        a.tx.output[o].script_pubkey = mutated_script(&base.tx.output[o].script_pubkey, rng);
        push("out.script.flip", a);
        if !base.ws[o].is_empty() {
            // consistent re-scripting: witscript mutated and the output pays to its hash
            let mut a = base.clone();
            flip_bit(&mut a.ws[o], rng);
            a.tx.output[o].script_pubkey = ScriptBuf::from(a.ws[o].clone()).to_p2wsh();
            push("out.rescript", a);
            let mut a = base.clone();
            flip_bit(&mut a.ws[o], rng);
            push("ws.flip", a);
            let mut a = base.clone();
            a.ws[o] = vec![];
            push("ws.empty", a);
        } else {
            let mut a = base.clone();
            let glen = rng.range(1, 40) as usize;
            a.ws[o] = rng.vec(glen);
            push("ws.garbage-on-p2wpkh", a);
        }
        let mut a = base.clone();
        a.tx.output.remove(o);
        a.ws.remove(o);
        push("out.removed", a);
        let mut a = base.clone();
        a.ws.remove(o);
        push("ws.removed-only", a);
        let mut a = base.clone();
        let dup = a.tx.output[o].clone();
        let dupw = a.ws[o].clone();
        a.tx.output.insert(o, dup);
        a.ws.insert(o, dupw);
        push("out.duplicated", a);
        if nout >= 2 {
            let mut p = rng.usize(nout - 1);
            if p >= o {
                p += 1;
            }
            let mut a = base.clone();
            a.tx.output.swap(o, p);
            a.ws.swap(o, p);
            push("out.swapped", a);
            if base.ws[o] != base.ws[p] {
                let mut a = base.clone();
                a.ws.swap(o, p);
                push("ws.swapped", a);
            }
        }
    }
    // adjacent swaps find the identical (duplicate HTLC) neighbours
    for o in 0..nout.saturating_sub(1) {
        if base.tx.output[o] == base.tx.output[o + 1] {
            let mut a = base.clone();
            a.tx.output.swap(o, o + 1);
            a.ws.swap(o, o + 1);
            push("out.swapped-identical", a);
        }
    }
    // an extra output: paying a stranger (p2wpkh), paying the holder's own to_remote script again,
    // and a zero-value OP_RETURN-like unknown script
    let stranger = ScriptBuf::new_p2wpkh(
        &CompressedPublicKey(PublicKey::from_secret_key(&ctx.secp, &secret_key(&rng.bytes::<32>()))).wpubkey_hash(),
    );
    for (k, spk, val) in [
        ("out.added.p2wpkh", stranger, rng.range(0, 100_000)),
        ("out.added.to-holder-again", ctx.spk_to_holder(), rng.range(330, 100_000)),
        ("out.added.unknown", ScriptBuf::from(vec![0x6a, 0x01, 0x00]), 0),
    ] {
        let mut a = base.clone();
        let pos = rng.usize(nout + 1);
        a.tx.output.insert(pos, TxOut { value: Amount::from_sat(val), script_pubkey: spk });
        a.ws.insert(pos, vec![]);
        push(k, a);
    }

    // --- arguments
    let mut a = base.clone();
    a.point = PublicKey::from_secret_key(&ctx.secp, &secret_key(&rng.bytes::<32>()));
    push("arg.point", a);
    if base.n < INITIAL_COMMITMENT_NUMBER {
        let mut a = base.clone();
        a.n = base.n + 1;
        push("arg.commit_num+1", a);
    }
    if base.n > 0 {
        let mut a = base.clone();
        a.n = base.n - 1;
        push("arg.commit_num-1", a);
    }
    let mut a = base.clone();
    a.feerate = if rng.bool() { base.feerate.wrapping_add(1) } else { rng.range(0, 50_000) as u32 };
    push("arg.feerate", a);
    let nh = base.offered.len() + base.received.len();
    if nh > 0 {
        let pick = |a: &mut RawArgs, rng: &mut Rng| -> (bool, usize) {
            let k = rng.usize(a.offered.len() + a.received.len());
            if k < a.offered.len() { (true, k) } else { (false, k - a.offered.len()) }
        };
        let mut a = base.clone();
        let (o, k) = pick(&mut a, rng);
        if o { a.offered.remove(k); } else { a.received.remove(k); }
        push("arg.htlc.dropped", a);
        let mut a = base.clone();
        let (o, k) = pick(&mut a, rng);
        if o {
            let h = a.offered.remove(k);
            a.received.push(h);
        } else {
            let h = a.received.remove(k);
            a.offered.push(h);
        }
        push("arg.htlc.direction", a);
        let mut a = base.clone();
        let (o, k) = pick(&mut a, rng);
        let h = if o { &mut a.offered[k] } else { &mut a.received[k] };
        h.cltv_expiry = h.cltv_expiry.wrapping_add(1);
        push("arg.htlc.cltv", a);
        let mut a = base.clone();
        let (o, k) = pick(&mut a, rng);
        let h = if o { &mut a.offered[k] } else { &mut a.received[k] };
        h.value_sat += 1;
        push("arg.htlc.value", a);
        let mut a = base.clone();
        let (o, k) = pick(&mut a, rng);
        let h = if o { &mut a.offered[k] } else { &mut a.received[k] };
        flip_bit(&mut h.payment_hash.0, rng);
        push("arg.htlc.hash", a);
        if nh > 1 {
            let mut a = base.clone();
            a.offered.reverse();
            a.received.reverse();
            rng.shuffle(&mut a.offered);
            rng.shuffle(&mut a.received);
            push("arg.htlc.reordered", a);
        }
    }
    let mut a = base.clone();
    if rng.bool() { a.offered.push(other_htlc(rng)); } else { a.received.push(other_htlc(rng)); }
    push("arg.htlc.added", a);
    out
}

// ---------------------------------------------------------------------------------------------
// one case

fn run_case(ci: &CaseInfo, rng: &mut Rng, r: &mut Report, per_output_budget: usize, reuse: bool, verbose: bool) {
    let s = ci.spec;
    r.count("cases");
    let (world, ctx) = match build_pre(s, r) {
        Ok(x) => x,
        Err(why) => {
            if why.starts_with("harness:") {
                r.inconclusive(&format!("shard {} case {}: {}", ci.shard, ci.case, why));
            } else if why.starts_with("prefix") {
                r.count("prefix.ended_early");
                r.set_add("prefix_endings", &why);
            }
            r.distinct_str(&format!("early:{}:{}", ci.class(), why.split(':').next().unwrap_or("")));
            if verbose {
                println!("case ended early: {}", why);
            }
            return;
        }
    };
    r.count("prestate.reached");
    let point = ctx.point(s.target_n);
    let c = &s.content;

    // 1. semantic entry point on a signer restored from the pre-state store
    let node_a = match fresh(&world, &ctx) {
        Ok(n) => n,
        Err(e) => {
            r.inconclusive(&format!("shard {} case {}: restore failed: {}", ci.shard, ci.case, e));
            return;
        }
    };
    r.eval(1);
    let res = phase2(&node_a, &ctx.id, &point, s.target_n, c);
    let tkey = format!("{:?}", s.ctype);
    let accepted = match &res {
        Ok(Ok((sig, hsigs))) => {
            r.count("phase2.ok");
            r.count(&format!("phase2.ok.{}", tkey));
            r.count(if s.is_outbound { "phase2.ok.outbound" } else { "phase2.ok.inbound" });
            if s.target_n > 0 { r.count("phase2.ok.n>0"); } else { r.count("phase2.ok.n=0"); }
            if s.jump_to.is_some() { r.count("phase2.ok.large_commitment_number"); }
            if s.retry { r.count("phase2.ok.retry"); }
            if !hsigs.is_empty() { r.count("phase2.ok.with_htlcs"); }
            if has_duplicates(c) { r.count("phase2.ok.with_duplicate_htlcs"); }
            if near_trim(s) { r.count("phase2.ok.htlc_within_1sat_of_trim_limit"); }
            if c.to_holder == 0 || c.to_cp == 0 { r.count("phase2.ok.one_balance_zero"); }
            if s.lax_trim { r.count("phase2.ok.lax_trim_policy"); }
            if s.funding_vout > 65_535 {
                r.count("observed.phase2.ok.funding_vout_above_u16");
                r.note("a setup with funding vout >= 65536 is accepted and its commitments are signed for the outpoint with vout & 0xffff (LDK's outpoint index is u16); outside the negotiable domain, reference truncates likewise, not judged");
            }
            let canon = judge_phase2(ci, &ctx, &node_a, "restored-from-store", sig, hsigs, r);
            r.distinct_str(&format!("p2:{}:ok", ci.class()));
            handler_entry(ci, &ctx, &world, rng, r);
            Some((*sig, canon))
        }
        Ok(Err(e)) => {
            r.count("phase2.refused");
            r.count(&format!("phase2.refused.{}", tkey));
            r.set_add("phase2_refusals", &reason_tag(e));
            r.distinct_str(&format!("p2:{}:refused:{}", ci.class(), policy_tag(e)));
            None
        }
        Err(p) => {
            r.count("phase2.panic");
            r.note(&format!("sign_counterparty_commitment_tx_phase2 panicked: {}", p));
            None
        }
    };
    drop(node_a);
    if verbose {
        println!("phase2: {:?}", res.as_ref().map(|x| x.as_ref().map(|(s, h)| (s.to_string(), h.len())).map_err(|e| e.message().to_string())));
    }

    // the canonical raw call for this content
    let canon = match &accepted {
        Some((_, canon)) => Some(build_canon(&ctx, &point, s.target_n, c.feerate, &c.offered, &c.received, c.to_holder, c.to_cp)).map(|c2| {
            debug_assert!(c2.tx == canon.tx);
            c2
        }),
        None => report::catch(|| build_canon(&ctx, &point, s.target_n, c.feerate, &c.offered, &c.received, c.to_holder, c.to_cp)).ok(),
    };
    let canon = match canon {
        Some(c) => c,
        None => {
            r.count("reference.unbuildable_for_refused_content");
            return;
        }
    };
    // harness self-check: the witscripts belong to the outputs
    for (o, ws) in canon.tx.output.iter().zip(canon.witscripts.iter()) {
        if !ws.is_empty() && o.script_pubkey != ScriptBuf::from(ws.clone()).to_p2wsh() {
            r.inconclusive("harness: build_tx_scripts and the reference transaction disagree");
            return;
        }
    }
    let base = RawArgs {
        tx: canon.tx.clone(),
        ws: canon.witscripts.clone(),
        point,
        n: s.target_n,
        feerate: c.feerate,
        offered: c.offered.clone(),
        received: c.received.clone(),
    };

    // 2. raw entry point, canonical transaction, fresh pre-state
    let node_b = match fresh(&world, &ctx) {
        Ok(n) => n,
        Err(e) => {
            r.inconclusive(&format!("restore failed: {}", e));
            return;
        }
    };
    let res_b = raw(&node_b, &ctx.id, &base);
    drop(node_b);
    let out_b = judge_raw(ci, &ctx, "canonical", &base, &res_b, Some(&canon), r);
    if verbose {
        println!("raw canonical: {:?}", res_b.as_ref().map(|x| x.as_ref().map(|s| s.to_string()).map_err(|e| e.message().to_string())));
    }
    match (&accepted, &out_b.ok) {
        (Some((sig, _)), Some(sig_b)) => {
            r.count("oracle.raw_vs_phase2.compared");
            if sig != sig_b {
                r.violation(
                    "c04:raw-and-phase2-signatures-differ",
                    ci.detail(json!({"phase2_signature": sig.to_string(), "raw_signature": sig_b.to_string(), "call": raw_json(&base)})),
                );
            } else {
                r.count("oracle.raw_vs_phase2.same_signature");
            }
        }
        (Some(_), None) => {
            let why = match &res_b {
                Ok(Err(e)) => e.message().to_string(),
                Err(p) => format!("panic: {}", p),
                _ => String::new(),
            };
            r.violation(
                "c04:raw-refuses-canonical-tx",
                ci.detail(json!({"entry": "sign_counterparty_commitment_tx", "phase2": "accepted the same content on the same pre-state",
                    "raw_result": why, "call": raw_json(&base)})),
            );
        }
        (None, Some(_)) => {
            r.count("raw.canonical.ok_while_phase2_refused");
            if let Ok(Err(e)) = &res {
                r.set_add("raw_canonical_ok_while_phase2_refused_with", &format!("shard {} case {}: {}", ci.shard, ci.case, reason_tag(e)));
            }
        }
        (None, None) => r.count("raw.canonical.refused_like_phase2"),
    }

    // 3. mutations, each on a fresh pre-state — only where the content is acceptable (otherwise
    // every refusal would be explained by the content, not by the mutation)
    if let Some((sig, _)) = &accepted {
        let muts = mutations(&base, &ctx, rng, per_output_budget);
        // A restored signer is reused for the next call only after a *refused* call that provably
        // left its store untouched (dump equal to the pre-state dump); after an Ok or a panic, and
        // always when `reuse` is off (thorough tier), the next call gets a newly restored signer.
        let pre_dump = world.store.dump();
        let mut held: Option<(vls_verif::world::Store, Arc<Node>)> = None;
        for (kind, a) in muts.iter() {
            let (store_m, node_m) = match held.take() {
                Some(x) => {
                    r.count("raw.signer.reused_after_refusal");
                    x
                }
                None => match world.crash_copy() {
                    Ok(x) => {
                        if x.1.with_channel(&ctx.id, |_c| Ok(())).is_err() {
                            r.inconclusive("restored channel missing");
                            return;
                        }
                        r.count("raw.signer.restored");
                        x
                    }
                    Err(e) => {
                        r.inconclusive(&format!("restore failed: {}", e));
                        return;
                    }
                },
            };
            let res_m = raw(&node_m, &ctx.id, a);
            if reuse && matches!(res_m, Ok(Err(_))) {
                if store_m.dump() == pre_dump {
                    held = Some((store_m, node_m));
                } else {
                    r.count("raw.refused_call_changed_store");
                    r.note(&format!("a refused raw call ({}) changed the persisted state; signer discarded", kind));
                }
            }
            let out = judge_raw(ci, &ctx, kind, a, &res_m, Some(&canon), r);
            if verbose {
                println!("  {:28} {:?}", kind, res_m.as_ref().map(|x| x.as_ref().map(|_| "OK").map_err(|e| policy_tag(e))));
            }
            if let Some(sig_m) = out.ok {
                if a.tx == canon.tx {
                    // same transaction: deterministic signing must give the same signature
                    r.count("oracle.raw_mut_identical_tx.compared");
                    if &sig_m != sig {
                        r.violation(
                            "c04:raw-and-phase2-signatures-differ",
                            ci.detail(json!({"mutation": kind, "phase2_signature": sig.to_string(), "raw_signature": sig_m.to_string(), "call": raw_json(a)})),
                        );
                    }
                }
            }
        }
        // 4. the semantic entry point on the original (never restored) signer: same oracle
        r.eval(1);
        match phase2(&world.node, &ctx.id, &point, s.target_n, c) {
            Ok(Ok((sig2, hs2))) => {
                r.count("phase2.original_signer.ok");
                judge_phase2(ci, &ctx, &world.node, "original-in-memory", &sig2, &hs2, r);
            }
            Ok(Err(e)) => {
                r.count("phase2.original_signer.refused");
                r.note(&format!("original signer refused what the restored one accepted: {}", reason_tag(&e)));
            }
            Err(p) => r.note(&format!("phase2 on original signer panicked: {}", p)),
        }
    }

    if ci.case < 2 && ci.shard < 3 {
        r.sample(json!({"shard": ci.shard, "case": ci.case, "spec": spec_json(s),
            "phase2": match &res { Ok(Ok((sig, hs))) => json!({"ok": {"signature": sig.to_string(), "htlc_signatures": hs.len()}}),
                                    Ok(Err(e)) => json!({"refused": e.message()}), Err(p) => json!({"panic": p}) },
            "canonical_tx": serialize_hex(&canon.tx),
            "raw_canonical": match &res_b { Ok(Ok(sig)) => json!({"ok": sig.to_string()}), Ok(Err(e)) => json!({"refused": e.message()}), Err(p) => json!({"panic": p}) }}));
    }
}

fn case_rng(seed: u64, shard: usize, case: u64) -> Rng {
    Rng::new(fnv_str(&format!("c04:{}:{}:{}", seed, shard, case)))
}

fn main() {
    let cli = Cli::parse("C04");
    report::install_quiet_panic_hook();
    let start = Instant::now();
    let quick = cli.tier.is_quick();
    let shards: usize = if quick { 32 } else { 128 };
    let cases_per_shard = cli.scaled(if quick { 20 } else { 40 });
    let per_output_budget = if quick { 3 } else { 6 };

    // replay of a single case: --only <shard>:<case>
    if let Some(only) = cli.extra.get("only") {
        let mut it = only.split(':');
        let shard: usize = it.next().and_then(|x| x.parse().ok()).unwrap_or(0);
        let case: u64 = it.next().and_then(|x| x.parse().ok()).unwrap_or(0);
        let mut r = Report::new("C04");
        let mut rng = case_rng(cli.seed, shard, case);
        let spec = gen_spec(&mut rng);
        println!("{}", serde_json::to_string_pretty(&spec_json(&spec)).unwrap());
        let ci = CaseInfo { spec: &spec, shard, case, seed: cli.seed };
        run_case(&ci, &mut rng, &mut r, 64, false, true);
        for v in &r.violations {
            println!("VIOLATION {} {}", v.signature, serde_json::to_string_pretty(&v.detail).unwrap());
        }
        println!("counters: {}", serde_json::to_string_pretty(&r.counters).unwrap());
        std::process::exit(if r.violations.is_empty() { 0 } else { 1 });
    }

    let mut report = run_sharded("C04", cli.threads, shards, |shard, r| {
        for case in 0..cases_per_shard {
            let mut rng = case_rng(cli.seed, shard, case);
            let spec = gen_spec(&mut rng);
            let ci = CaseInfo { spec: &spec, shard, case, seed: cli.seed };
            run_case(&ci, &mut rng, r, per_output_budget, quick, false);
        }
    });

    let k = if quick { 1 } else { 8 };
    report.require("phase2.ok", 120 * k);
    report.require("phase2.ok.StaticRemoteKey", 40 * k);
    report.require("phase2.ok.AnchorsZeroFeeHtlc", 40 * k);
    report.require("phase2.ok.n>0", 80 * k);
    report.require("phase2.ok.large_commitment_number", 10 * k);
    report.require("phase2.ok.with_duplicate_htlcs", 8 * k);
    report.require("phase2.refused", 20 * k);
    report.require("oracle.phase2.commit_sig_verified", 120 * k);
    report.require("oracle.phase2.htlc_sig_verified.sighash_all", 60 * k);
    report.require("oracle.phase2.htlc_sig_verified.single_anyonecanpay", 60 * k);
    report.require("oracle.raw_vs_phase2.same_signature", 100 * k);
    report.require("raw.mutation.tx_differs.refused", 2000 * k);
    report.require("raw.mutation.ok_tx_identical", 10 * k);
    report.require("oracle.raw.sig_verified", 150 * k);

    finish(
        report,
        FinishSpec {
            cli: &cli,
            level: "exploration",
            rule: "random channel setups x commitment numbers (0, 1, 2.., and large numbers reached by a counter jump) x contents (balances, feerate, 0-12 HTLCs incl. duplicates and values at the trim limit); phase2 Ok => signatures verify (secp256k1) against the harness-built BOLT-3 commitment/HTLC transactions; raw entry point on fresh restored signers with the canonical tx (must be Ok, same signature) and single-field mutations of tx / witscripts / arguments (Ok => supplied tx byte-identical to the canonical tx of the supplied arguments and the balances it carries; signature verifies on it). distinct = (commitment type, direction, commitment-number class, HTLC-count class, first/retry, entry point, mutation kind, tx identical?, outcome, refusal tag)",
            assumptions: vec![
                "trusted base shared with the code under test: LDK chan_utils constructors (CommitmentTransaction::new_with_auxiliary_htlc_data, build_htlc_transaction, script builders), rust-bitcoin sighash/serialization, libsecp256k1, and test_utils::build_tx_scripts for witness scripts; not shared: how the setup, keys, delays, value order, funding outpoint and commitment number are fed to them".into(),
                "funding output index < 65536 (BOLT-2 funding_output_index is u16; the wire protocol cannot express more); 1% of setups use a larger index through the direct API: the signer and the reference both truncate it to u16, which is recorded (observed.phase2.ok.funding_vout_above_u16) but not judged".into(),
                "commitment types Anchors (non-zero-fee) and Legacy are sent but refused by the default policy at setup_channel (policy-channel-safe-type); they are counted, not judged".into(),
                "the HTLC lists handed to the signer are the untrimmed HTLCs (the API contract): every supplied HTLC has an output in the canonical transaction".into(),
                "large commitment numbers are reached with the test-only counter setters followed by a regular sign+revoke round (which persists the state); such a state is reachable by that many regular rounds".into(),
                "for the raw entry point the balances are part of the supplied transaction itself, so a +-1 on the to_local/to_remote value is a different content, judged against its own canonical transaction".into(),
                "each raw call runs on a signer restored from a copy of the pre-state store (restore path trusted here; C11/C18 cover it); in the quick tier a restored signer is reused for the next call only after a refused call whose store dump still equals the pre-state dump (never after an Ok or a panic), in the thorough tier every call gets a newly restored signer; phase2 is judged on both a restored and the original in-memory signer".into(),
            ],
            start,
            extra_coverage: Default::default(),
        },
    );
}
