//! C20 — concurrent requests neither deadlock nor break per-channel atomicity.
//!
//! Small sets of concurrent requests run on real OS threads against a real Node under the
//! cooperative scheduler of `vls_verif::sched` (lock observer hook, `--cfg vls_verif`).
//! Oracles: (1) no deadlock (exact wait-for cycle detection), (2) linearizability against the
//! implementation itself: replies of every thread + final state + store dump must equal those of
//! at least one sequential order of the same requests, run on fresh restorations of the same
//! initial store.

use lightning_signer::bitcoin::bip32::{ChildNumber, DerivationPath};
use lightning_signer::bitcoin::secp256k1::{All, PublicKey, Secp256k1, SecretKey};
use lightning_signer::channel::{ChannelBase, ChannelId};
use lightning_signer::lightning::types::payment::PaymentHash;
use lightning_signer::node::{Node, NodeMonitor, SpendType};
use lightning_signer::util::clock::ManualClock;
use lightning_signer::util::status::Status;
use lightning_signer::util::test_utils::{
    make_test_funding_tx_with_ins_outs, make_test_funding_wallet_input, make_test_funding_wallet_output,
};
use lightning_signer::wallet::Wallet;
use serde_json::{json, Value};
use std::collections::{BTreeMap, BTreeSet};
use std::sync::Arc;
use std::time::{Duration, Instant};
use vls_verif::chanmodel::{random_setup, Balance, ChanModel, Content, CpKeys};
use vls_verif::report::{self, finish, run_sharded, FinishSpec};
use vls_verif::rng::fnv_str;
use vls_verif::sched::{self, Sched, Strategy, ABORT_MSG};
use vls_verif::snapshot;
use vls_verif::world::{build_node, Store, World, WorldCfg};
use vls_verif::{oracle, Cli, Report, Rng};

#[derive(Clone, Debug)]
enum Req {
    ValidateHolder { c: usize },
    Revoke { c: usize },
    SignCounterparty { c: usize },
    /// the same request through the raw-transaction entry point (SignRemoteCommitmentTx)
    SignCounterpartyRaw { c: usize },
    ValidateRevocation { c: usize },
    GetPoint { c: usize },
    SignHolder { c: usize },
    ForgetChannel { c: usize },
    NewChannel { dbid: u64 },
    SetupStub,
    Balance,
    Heartbeat,
    Keysend { k: u8 },
    CheckOnchain { k: u32 },
    AddBlock,
    Allowlist,
    /// PreapproveKeysend as the protocol handler serves it: the velocity approver decides, then the node records
    ApproveKeysend { k: u8 },
    /// a keysend for ONE payment hash whatever the thread (amount 5000 + a): two of them at once are a retry (same
    /// amount: one approval, counted once) or a conflict (different amounts: the second one is refused)
    KeysendSameHash { a: u8 },
}

impl Req {
    fn kind(&self) -> &'static str {
        match self {
            Req::ValidateHolder { .. } => "validate_holder",
            Req::Revoke { .. } => "revoke",
            Req::SignCounterparty { .. } | Req::SignCounterpartyRaw { .. } => "sign_counterparty",
            Req::ValidateRevocation { .. } => "validate_revocation",
            Req::GetPoint { .. } => "get_point",
            Req::SignHolder { .. } => "sign_holder",
            Req::ForgetChannel { .. } => "forget_channel",
            Req::NewChannel { .. } => "new_channel",
            Req::SetupStub => "setup_channel",
            Req::Balance => "channel_balance",
            Req::Heartbeat => "get_heartbeat",
            Req::Keysend { .. } | Req::KeysendSameHash { .. } => "add_keysend",
            Req::CheckOnchain { .. } => "check_onchain_tx",
            Req::AddBlock => "add_block",
            Req::ApproveKeysend { .. } => "approve_keysend",
            Req::Allowlist => "add_allowlist",
        }
    }
}

/// Prepared, per ready channel
#[derive(Clone)]
struct Prep {
    m: ChanModel,
    next_holder: u64,
    holder_content: Content,
    holder_sigs: (lightning_signer::bitcoin::secp256k1::ecdsa::Signature, Vec<lightning_signer::bitcoin::secp256k1::ecdsa::Signature>),
    pending: bool,
    next_cp: u64,
    next_cp_revoke: u64,
    cp_content: Content,
}

/// one invoiced payment hash shared by the prepared updates of both channels; the approved
/// amount covers the HTLC of ONE channel only
const SHARED_HASH: [u8; 32] = [0xA7; 32];

struct Base {
    cfg: WorldCfg,
    store: Store,
    now: Duration,
    preps: Vec<Prep>,
    stub: Option<(ChannelId, ChanModel)>,
    next_dbid: u64,
}

fn st<T>(r: Result<Result<T, Status>, String>, f: impl FnOnce(T) -> String) -> String {
    match r {
        Ok(Ok(v)) => format!("ok:{}", f(v)),
        Ok(Err(s)) => format!("err:{:?}:{}", s.code(), s.message().chars().filter(|c| !c.is_ascii_digit()).take(70).collect::<String>()),
        Err(p) => {
            if p.contains(ABORT_MSG) {
                "aborted".to_string()
            } else {
                format!("panic:{}", p.chars().take(90).collect::<String>())
            }
        }
    }
}

impl Base {
    fn build(rng: &mut Rng, tag: u64) -> Option<Base> {
        let secp = Secp256k1::new();
        let cfg = WorldCfg::regtest(rng.bytes::<32>());
        let mut world = World::new(cfg.clone());
        for _ in 0..3 {
            world.add_empty_block().ok()?;
        }
        let mut preps = vec![];
        let mut fresh_tag = tag << 20;
        // half of the base worlds carry an approved keysend of 70_000 sat for SHARED_HASH and prepared
        // updates that each put 60_000 sat in flight for it: any single one is fine, two are not
        let with_shared_htlc = rng.bool();
        if with_shared_htlc {
            let payee = PublicKey::from_secret_key(&secp, &SecretKey::from_slice(&[5; 32]).unwrap());
            world.node.add_keysend(payee, PaymentHash(SHARED_HASH), 70_000_000).ok()?;
        }
        let nready = 2;
        for ci in 0..nready {
            let dbid = ci as u64 + 1;
            let mut peer_id = [2u8; 33];
            peer_id[1..9].copy_from_slice(&rng.next_u64().to_le_bytes());
            let node = world.node.clone();
            let (id, _) = world.node.new_channel(dbid, &peer_id, &node).ok()?;
            let cp = CpKeys::generate(rng);
            let cp_points = cp.points(&secp);
            let mut setup = random_setup(rng, &secp, &cp, tag << 8 | ci as u64);
            setup.push_value_msat = if setup.is_outbound { (setup.channel_value_sat / 2) * 1000 } else { 0 };
            let ch = world.node.setup_channel(id.clone(), None, setup.clone(), &DerivationPath::master()).ok()?;
            let m = ChanModel {
                id0: id.clone(),
                dbid,
                peer_id,
                setup: setup.clone(),
                cp,
                cp_points,
                holder_points: Some(ch.get_channel_basepoints()),
                holder_commitment_seed: Some(oracle::native_commitment_seed(&cfg.seed, id.as_slice())),
            };
            let mut bal = Balance::initial(&setup);
            // advance both sides a few steps through the real API
            let steps = 1 + rng.below(3);
            let mut n = 0u64;
            let mut last_content = bal.content(&setup)?;
            for s in 0..=steps {
                let content = if s == 0 { bal.content(&setup)? } else {
                    let mut trial = bal.clone();
                    let h = world.node.get_chain_height();
                    // only received HTLCs: offered ones would need invoices
                    let mut t2 = fresh_tag;
                    let _ = trial.step(rng, h, &mut t2);
                    trial.offered.clear();
                    fresh_tag = t2;
                    // re-balance: offered were removed from holder_sat by step; rebuild conservatively
                    let total: u64 = setup.channel_value_sat;
                    let recv: u64 = trial.received.iter().map(|x| x.value_sat).sum();
                    trial.holder_sat = total - trial.cp_sat - recv;
                    match trial.content(&setup) { Some(c) => { bal = trial; c } None => bal.content(&setup)? }
                };
                let (sig, hs) = m.cp_sign_holder_commitment(&secp, n, &content);
                let cc = content.clone();
                world.node.with_channel(&id, |ch| {
                    ch.validate_holder_commitment_tx_phase2(n, cc.feerate_per_kw, cc.to_holder_sat, cc.to_counterparty_sat, cc.offered.clone(), cc.received.clone(), &sig, &hs)?;
                    if n == 0 { ch.activate_initial_commitment().map(|_| ()) } else { ch.revoke_previous_holder_commitment(n).map(|_| ()) }
                }).ok()?;
                let p = m.cp.point(&secp, n);
                world.node.with_channel(&id, |ch| ch.sign_counterparty_commitment_tx_phase2(&p, n, cc.feerate_per_kw, cc.to_holder_sat, cc.to_counterparty_sat, cc.received.clone(), cc.offered.clone())).ok()?;
                if n > 0 {
                    let sec = m.cp.secret(n - 1);
                    world.node.with_channel(&id, |ch| ch.validate_counterparty_revocation(n - 1, &sec)).ok()?;
                }
                last_content = content;
                n += 1;
            }
            // prepare the next holder commitment; sometimes leave it pending (validated, not revoked)
            let mut trial = bal.clone();
            trial.feerate = rng.range(400, 3000) as u32;
            if with_shared_htlc && trial.holder_sat > 200_000 {
                trial.holder_sat -= 60_000;
                let h = world.node.get_chain_height();
                trial.offered.push(lightning_signer::tx::tx::HTLCInfo2 { value_sat: 60_000, payment_hash: PaymentHash(SHARED_HASH), cltv_expiry: h + 50 });
            }
            let next_content = trial.content(&setup).unwrap_or(last_content.clone());
            let sigs = m.cp_sign_holder_commitment(&secp, n, &next_content);
            let pending = rng.bool();
            if pending {
                let cc = next_content.clone();
                world.node.with_channel(&id, |ch| ch.validate_holder_commitment_tx_phase2(n, cc.feerate_per_kw, cc.to_holder_sat, cc.to_counterparty_sat, cc.offered.clone(), cc.received.clone(), &sigs.0, &sigs.1)).ok()?;
            }
            // counterparty side: sometimes leave the last commitment unrevoked
            let (ncp, nrev) = world.node.with_channel(&id, |ch| Ok((ch.enforcement_state.next_counterparty_commit_num, ch.enforcement_state.next_counterparty_revoke_num))).ok()?;
            preps.push(Prep { m, next_holder: n, holder_content: next_content.clone(), holder_sigs: sigs, pending, next_cp: ncp, next_cp_revoke: nrev, cp_content: next_content });
        }
        // a stub
        let stub = {
            let dbid = 10;
            let mut peer_id = [2u8; 33];
            peer_id[1..9].copy_from_slice(&rng.next_u64().to_le_bytes());
            let node = world.node.clone();
            let (id, _) = world.node.new_channel(dbid, &peer_id, &node).ok()?;
            let cp = CpKeys::generate(rng);
            let cp_points = cp.points(&secp);
            let setup = random_setup(rng, &secp, &cp, tag << 8 | 0xEE);
            let m = ChanModel { id0: id.clone(), dbid, peer_id, setup, cp, cp_points, holder_points: None, holder_commitment_seed: None };
            Some((id, m))
        };
        let now = Duration::from_secs(world.now());
        Some(Base { cfg, store: world.store.clone(), now, preps, stub, next_dbid: 20 })
    }

    /// A fresh signer restored from a deep copy of the base store
    fn instantiate(&self) -> Result<World, String> {
        let copy = self.store.deep_copy();
        let clock = Arc::new(ManualClock::new(self.now));
        let node = build_node(&self.cfg, &copy, clock.clone())?;
        Ok(World { cfg: self.cfg.clone(), store: copy, clock, node, restarts: 0, external: Default::default(), last_mutations: Default::default() })
    }

    fn exec(&self, world: &World, secp: &Secp256k1<All>, req: &Req) -> String {
        let node: &Arc<Node> = &world.node;
        match req {
            Req::ValidateHolder { c } => {
                let p = &self.preps[*c];
                let cc = p.holder_content.clone();
                let n = p.next_holder;
                st(report::catch(|| node.with_channel(&p.m.id0, |ch| ch.validate_holder_commitment_tx_phase2(n, cc.feerate_per_kw, cc.to_holder_sat, cc.to_counterparty_sat, cc.offered.clone(), cc.received.clone(), &p.holder_sigs.0, &p.holder_sigs.1))), |_| String::new())
            }
            Req::Revoke { c } => {
                let p = &self.preps[*c];
                st(report::catch(|| node.with_channel(&p.m.id0, |ch| ch.revoke_previous_holder_commitment(p.next_holder))), |(pt, s)| format!("{}:{:?}", pt, s.map(|x| hex::encode(x.secret_bytes()))))
            }
            Req::SignCounterparty { c } => {
                let p = &self.preps[*c];
                let cc = p.cp_content.clone();
                let point = p.m.cp.point(secp, p.next_cp);
                st(report::catch(|| node.with_channel(&p.m.id0, |ch| ch.sign_counterparty_commitment_tx_phase2(&point, p.next_cp, cc.feerate_per_kw, cc.to_holder_sat, cc.to_counterparty_sat, cc.received.clone(), cc.offered.clone()))), |(s, hs)| format!("{}:{}", s, hs.len()))
            }
            Req::SignCounterpartyRaw { c } => {
                let p = &self.preps[*c];
                let cc = p.cp_content.clone();
                let point = p.m.cp.point(secp, p.next_cp);
                match report::catch(|| p.m.counterparty_commitment_phase1(secp, p.next_cp, &point, &cc)) {
                    Ok((tx, wit)) => st(report::catch(|| node.with_channel(&p.m.id0, |ch| ch.sign_counterparty_commitment_tx(&tx, &wit, &point, p.next_cp, cc.feerate_per_kw, cc.received.clone(), cc.offered.clone()))), |s| format!("{}", s)),
                    Err(_) => "err:harness could not build the commitment".into(),
                }
            }
            Req::ValidateRevocation { c } => {
                let p = &self.preps[*c];
                let sec = p.m.cp.secret(p.next_cp_revoke);
                st(report::catch(|| node.with_channel(&p.m.id0, |ch| ch.validate_counterparty_revocation(p.next_cp_revoke, &sec))), |_| String::new())
            }
            Req::GetPoint { c } => {
                let p = &self.preps[*c];
                st(report::catch(|| node.with_channel_base(&p.m.id0, |b| b.get_per_commitment_point(p.next_holder))), |pt| pt.to_string())
            }
            Req::SignHolder { c } => {
                let p = &self.preps[*c];
                st(report::catch(|| node.with_channel(&p.m.id0, |ch| ch.sign_holder_commitment_tx_phase2(p.next_holder - 1))), |s| s.to_string())
            }
            Req::ForgetChannel { c } => {
                let id = if *c < self.preps.len() { self.preps[*c].m.id0.clone() } else { self.stub.as_ref().map(|s| s.0.clone()).unwrap() };
                st(report::catch(|| node.forget_channel(&id)), |_| String::new())
            }
            Req::NewChannel { dbid } => {
                let mut peer_id = [4u8; 33];
                peer_id[1] = *dbid as u8;
                let n2 = node.clone();
                st(report::catch(|| node.new_channel(*dbid, &peer_id, &n2)), |(id, _)| format!("{}", id))
            }
            Req::SetupStub => {
                let (id, m) = self.stub.as_ref().unwrap();
                st(report::catch(|| node.setup_channel(id.clone(), None, m.setup.clone(), &DerivationPath::master())), |ch| format!("{}", ch.get_channel_basepoints().funding_pubkey))
            }
            Req::Balance => match report::catch(|| node.channel_balance()) {
                Ok(b) => format!("ok:{:?}", b),
                Err(p) => if p.contains(ABORT_MSG) { "aborted".into() } else { format!("panic:{}", p.chars().take(90).collect::<String>()) },
            },
            Req::Heartbeat => match report::catch(|| node.get_heartbeat()) {
                Ok(h) => format!("ok:{:?}", h.heartbeat),
                Err(p) => if p.contains(ABORT_MSG) { "aborted".into() } else { format!("panic:{}", p.chars().take(90).collect::<String>()) },
            },
            Req::Keysend { k } => {
                let payee = PublicKey::from_secret_key(secp, &SecretKey::from_slice(&[5; 32]).unwrap());
                st(report::catch(|| node.add_keysend(payee, PaymentHash([*k; 32]), 1000 + *k as u64)), |b| b.to_string())
            }
            Req::KeysendSameHash { a } => {
                let payee = PublicKey::from_secret_key(secp, &SecretKey::from_slice(&[5; 32]).unwrap());
                st(report::catch(|| node.add_keysend(payee, PaymentHash([0x77; 32]), 5000 + *a as u64)), |b| b.to_string())
            }
            Req::CheckOnchain { k } => {
                let (prev, txin) = make_test_funding_wallet_input(node, SpendType::P2wpkh, *k, 1_000_000);
                let out = make_test_funding_wallet_output(node, *k + 1, 999_000, SpendType::P2wpkh);
                let tx = make_test_funding_tx_with_ins_outs(vec![txin], vec![out]);
                let opath: DerivationPath = vec![ChildNumber::from_normal_idx(*k + 1).unwrap()].into();
                match report::catch(|| node.check_onchain_tx(&tx, &[true], &[prev.output[0].clone()], &[None], &[opath])) {
                    Ok(Ok(())) => "ok".into(),
                    Ok(Err(e)) => format!("err:{}", format!("{:?}", e.kind).chars().take(60).collect::<String>()),
                    Err(p) => if p.contains(ABORT_MSG) { "aborted".into() } else { format!("panic:{}", p.chars().take(90).collect::<String>()) },
                }
            }
            Req::AddBlock => match report::catch(|| world.add_empty_block()) {
                Ok(Ok(())) => "ok".into(),
                Ok(Err(e)) => format!("err:{}", e.chars().take(60).collect::<String>()),
                Err(p) => if p.contains(ABORT_MSG) { "aborted".into() } else { format!("panic:{}", p.chars().take(90).collect::<String>()) },
            },
            Req::ApproveKeysend { k } => {
                // every world has one velocity approver (1_000_000 msat per hour, declining delegate), shared by
                // all its requests like the handler's; each request asks for 600_000 msat: whatever the order,
                // exactly the first one fits
                use vls_protocol_signer::approver::Approve;
                let approver = approver_for(world);
                let payee = PublicKey::from_secret_key(secp, &SecretKey::from_slice(&[5; 32]).unwrap());
                st(report::catch(|| approver.handle_proposed_keysend(node, payee, PaymentHash([0xA0 + *k; 32]), 600_000)), |b| b.to_string())
            }
            Req::Allowlist => {
                let a = node.get_native_address(&vec![ChildNumber::from_normal_idx(7).unwrap()].into()).map(|a| a.to_string()).unwrap_or_default();
                st(report::catch(|| node.add_allowlist(&[a.clone()])), |_| String::new())
            }
        }
    }
}

type VApprover = vls_protocol_signer::approver::VelocityApprover<vls_protocol_signer::approver::NegativeApprover>;
static APPROVERS: std::sync::Mutex<BTreeMap<usize, Arc<VApprover>>> = std::sync::Mutex::new(BTreeMap::new());

fn approver_key(world: &World) -> usize {
    Arc::as_ptr(&world.node) as usize
}

fn approver_for(world: &World) -> Arc<VApprover> {
    use lightning_signer::util::velocity::{VelocityControl, VelocityControlIntervalType, VelocityControlSpec};
    let mut map = APPROVERS.lock().unwrap_or_else(|e| e.into_inner());
    map.entry(approver_key(world))
        .or_insert_with(|| {
            let spec = VelocityControlSpec { limit_msat: 1_000_000, interval_type: VelocityControlIntervalType::Hourly };
            Arc::new(VApprover::new(world.clock.clone(), VelocityControl::new(spec), vls_protocol_signer::approver::NegativeApprover()))
        })
        .clone()
}

fn forget_approver(world: &World) {
    APPROVERS.lock().unwrap_or_else(|e| e.into_inner()).remove(&approver_key(world));
}

fn gen_req(rng: &mut Rng, base: &Base) -> Req {
    let c = rng.usize(base.preps.len());
    match rng.below(20) {
        0 | 1 => Req::ValidateHolder { c },
        2 | 3 => Req::Revoke { c },
        4 => Req::SignCounterparty { c },
        5 => Req::SignCounterpartyRaw { c },
        6 => Req::ValidateRevocation { c },
        7 => Req::GetPoint { c },
        8 => Req::SignHolder { c },
        9 | 10 => Req::ForgetChannel { c: rng.usize(base.preps.len() + 1) },
        11 => Req::NewChannel { dbid: base.next_dbid + rng.below(3) },
        12 => Req::SetupStub,
        13 | 14 => Req::Balance,
        15 => Req::Heartbeat,
        16 => Req::Keysend { k: rng.below(3) as u8 + 1 },
        17 => Req::CheckOnchain { k: rng.below(3) as u32 + 1 },
        18 => Req::AddBlock,
        _ => Req::Allowlist,
    }
}

/// all interleavings of the per-thread request sequences (preserving per-thread order)
fn interleavings(lens: &[usize]) -> Vec<Vec<usize>> {
    fn rec(rem: &mut Vec<usize>, cur: &mut Vec<usize>, out: &mut Vec<Vec<usize>>) {
        if rem.iter().all(|r| *r == 0) {
            out.push(cur.clone());
            return;
        }
        for t in 0..rem.len() {
            if rem[t] > 0 {
                rem[t] -= 1;
                cur.push(t);
                rec(rem, cur, out);
                cur.pop();
                rem[t] += 1;
            }
        }
    }
    let mut out = vec![];
    rec(&mut lens.to_vec(), &mut vec![], &mut out);
    out
}

fn sort_pair_arrays(v: &mut serde_json::Value) {
    match v {
        serde_json::Value::Array(a) => {
            for x in a.iter_mut() {
                sort_pair_arrays(x);
            }
            let all_pairs = !a.is_empty() && a.iter().all(|x| x.as_array().map(|p| p.len() == 2).unwrap_or(false));
            if all_pairs {
                a.sort_by_key(|x| x[0].to_string());
            }
        }
        serde_json::Value::Object(o) => {
            for (_, x) in o.iter_mut() {
                sort_pair_arrays(x);
            }
        }
        _ => {}
    }
}

fn canon(world: &World) -> String {
    let s = snapshot::take(world);
    let mut out = String::new();
    for (k, v) in s {
        // store versions are not compared: the number of rewrites of an entry with identical
        // content is not an observable outcome of the requests (see C10), the values are
        if k == "store._WRITER" {
            continue;
        }
        out.push_str(&k);
        out.push('=');
        if k.starts_with("store.") {
            // Stored values are JSON; maps are written as arrays of [key, value] pairs in the map's own iteration
            // order, which depends on insertion order.  Two histories that end with the same set of entries are
            // the same outcome: such arrays are compared sorted.
            let body = v.splitn(2, ':').nth(1).unwrap_or(&v);
            match serde_json::from_str::<serde_json::Value>(body) {
                Ok(mut j) => {
                    sort_pair_arrays(&mut j);
                    out.push_str(&j.to_string());
                }
                Err(_) => out.push_str(body),
            }
        } else {
            out.push_str(&v);
        }
        out.push('\n');
    }
    out
}

#[derive(Clone, PartialEq)]
struct Outcome {
    replies: Vec<Vec<String>>,
    state: String,
}

fn run_sequential(base: &Base, secp: &Secp256k1<All>, threads: &[Vec<Req>], order: &[usize]) -> Result<Outcome, String> {
    let world = base.instantiate()?;
    let mut idx = vec![0usize; threads.len()];
    let mut replies: Vec<Vec<String>> = threads.iter().map(|_| vec![]).collect();
    for &t in order {
        let req = &threads[t][idx[t]];
        idx[t] += 1;
        replies[t].push(base.exec(&world, secp, req));
    }
    let out = Outcome { replies, state: canon(&world) };
    forget_approver(&world);
    Ok(out)
}

enum ConcResult {
    Done(Outcome),
    /// deadlock, trace, index of the request each thread was executing
    Deadlock(sched::Deadlock, Vec<String>, Vec<usize>),
    Timeout,
}

fn run_concurrent(base: &Base, threads: &[Vec<Req>], seed: u64, strategy: Strategy) -> Result<(ConcResult, u64, u64, Vec<(String, String)>), String> {
    let world = Arc::new(base.instantiate()?);
    let _approver = approver_for(&world);
    let sch = Sched::new(threads.len(), seed, strategy);
    let current: Arc<Vec<std::sync::atomic::AtomicUsize>> = Arc::new((0..threads.len()).map(|_| std::sync::atomic::AtomicUsize::new(0)).collect());
    let mut replies: Vec<Vec<String>> = vec![];
    std::thread::scope(|s| {
        let mut handles = vec![];
        for (i, reqs) in threads.iter().enumerate() {
            let world = world.clone();
            let sch = sch.clone();
            let reqs = reqs.clone();
            let current = current.clone();
            handles.push(s.spawn(move || {
                let secp = Secp256k1::new();
                let mut out = vec![];
                let r = std::panic::catch_unwind(std::panic::AssertUnwindSafe(|| {
                    sch.enter(i);
                    for (qi, req) in reqs.iter().enumerate() {
                        current[i].store(qi, std::sync::atomic::Ordering::SeqCst);
                        let rep = base.exec(&world, &secp, req);
                        let aborted = rep == "aborted";
                        out.push(rep);
                        if aborted {
                            // the schedule was aborted (deadlock or watchdog) while this request was blocked
                            break;
                        }
                    }
                }));
                let _ = r;
                sch.leave(i);
                out
            }));
        }
        for h in handles {
            replies.push(h.join().unwrap_or_else(|_| vec!["thread-join-failed".into()]));
        }
    });
    forget_approver(&world);
    let steps = sch.steps();
    let th = sch.trace_hash();
    let edges = sch.edges();
    if let Some(d) = sch.take_deadlock() {
        let cur: Vec<usize> = current.iter().map(|c| c.load(std::sync::atomic::Ordering::SeqCst)).collect();
        return Ok((ConcResult::Deadlock(d, sch.trace(), cur), steps, th, edges));
    }
    if sch.timed_out() {
        return Ok((ConcResult::Timeout, steps, th, edges));
    }
    let state = canon(&world);
    Ok((ConcResult::Done(Outcome { replies, state }), steps, th, edges))
}

fn lock_name(s: &str) -> String {
    // normalise class names of the wrapped mutex payloads to the four lock classes of the property
    if s.contains("NodeState") { "NodeState".into() }
    else if s.contains("ChainTracker") { "ChainTracker".into() }
    else if s.contains("BTreeMap<channel::ChannelId") || s.contains("OrderedMap") || (s.contains("BTreeMap") && s.contains("ChannelSlot")) { "ChannelMap".into() }
    else if s.contains("ChannelSlot") { "ChannelSlot".into() }
    else if s.contains("monitor::State") { "MonitorState".into() }
    else if s.contains("ValidatorFactory") { "ValidatorFactory".into() }
    else if s.contains("Duration") { "Clock".into() }
    else { s.chars().take(40).collect() }
}

fn main() {
    let cli = Cli::parse("C20");
    report::install_quiet_panic_hook();
    sched::install_observer();
    let start = Instant::now();
    let quick = cli.tier.is_quick();
    let shards = if quick { 16 } else { 64 };
    let (sets_per_shard, schedules_per_set) = if quick { (20, 60) } else { (100, 200) };
    let sets_per_shard = cli.scaled(sets_per_shard);
    let mut report = run_sharded("C20", cli.threads, shards, |shard, r| {
        let secp = Secp256k1::new();
        let mut rng = Rng::new(cli.seed.wrapping_mul(11_000_027).wrapping_add(shard as u64));
        for set in 0..sets_per_shard {
            let mut srng = rng.fork(set);
            let base = match Base::build(&mut srng, (shard as u64) << 16 | set) {
                Some(b) => b,
                None => {
                    r.count("base_build_failed");
                    continue;
                }
            };
            // 2-3 threads, 1-2 requests each, at most 4 requests
            let nthreads = 2 + srng.below(2) as usize;
            let mut threads: Vec<Vec<Req>> = vec![];
            let mut total = 0;
            for _ in 0..nthreads {
                let k = if total >= 3 { 1 } else { 1 + srng.below(2) as usize };
                total += k;
                threads.push((0..k).map(|_| gen_req(&mut srng, &base)).collect());
            }
            if set % 6 == 5 {
                // an approver set: two threads ask the velocity approver for a keysend each (different hashes)
                threads = vec![vec![Req::ApproveKeysend { k: 0 }], vec![Req::ApproveKeysend { k: 1 }]];
                if srng.bool() {
                    let extra = gen_req(&mut srng, &base);
                    let t = srng.usize(2);
                    if srng.bool() { threads[t].push(extra) } else { threads[t].insert(0, extra) }
                }
                r.count("request_sets.velocity_approver");
            }
            if set % 6 == 3 {
                // two threads approve a keysend for the same payment hash: the same one twice (a retry) or two
                // different ones (a conflict)
                let b = srng.below(2) as u8;
                threads = vec![vec![Req::KeysendSameHash { a: 0 }], vec![Req::KeysendSameHash { a: b }]];
                if srng.bool() {
                    let extra = gen_req(&mut srng, &base);
                    let t = srng.usize(2);
                    if srng.bool() { threads[t].push(extra) } else { threads[t].insert(0, extra) }
                }
                r.count("request_sets.keysends_for_one_hash");
            }
            let kinds: Vec<Vec<&str>> = threads.iter().map(|t| t.iter().map(|q| q.kind()).collect()).collect();
            r.count("request_sets");
            // sequential reference outcomes
            let lens: Vec<usize> = threads.iter().map(|t| t.len()).collect();
            let orders = interleavings(&lens);
            let mut refs: Vec<Outcome> = vec![];
            let mut ref_failed = false;
            for o in &orders {
                match run_sequential(&base, &secp, &threads, o) {
                    Ok(out) => {
                        if !refs.contains(&out) {
                            refs.push(out);
                        }
                    }
                    Err(e) => {
                        r.note(&format!("sequential reference run failed: {}", e));
                        ref_failed = true;
                    }
                }
            }
            if ref_failed {
                r.count("reference_failed");
                continue;
            }
            r.count_n("sequential_reference_runs", orders.len() as u64);
            r.count_n("distinct_sequential_outcomes", refs.len() as u64);
            let mut deadlock_reported: BTreeSet<String> = BTreeSet::new();
            for k in 0..schedules_per_set {
                let strategy = match k % 4 { 0 | 1 => Strategy::RandomWalk, 2 => Strategy::Pct(2), _ => Strategy::Pct(3) };
                let seed = srng.next_u64();
                r.eval(1);
                let (res, steps, th, edges) = match run_concurrent(&base, &threads, seed, strategy) {
                    Ok(x) => x,
                    Err(e) => {
                        r.note(&format!("instantiate failed: {}", e));
                        continue;
                    }
                };
                r.count_n("scheduler_steps", steps);
                r.distinct_hash(th);
                for (a, b) in edges {
                    r.set_add("lock_order_edges", &format!("{} -> {}", lock_name(&a), lock_name(&b)));
                }
                match res {
                    ConcResult::Timeout => {
                        r.count("schedule_watchdog_timeouts");
                    }
                    ConcResult::Deadlock(d, trace, cur) => {
                        r.count("deadlocks");
                        // The minimal wait-for cycle; one finding per EDGE of the cycle:
                        //   "<request kind> holds <lock class> (awaited by its predecessor) and waits for <lock class>".
                        // A deadlock all of whose edges are listed as known findings is a known deadlock; any
                        // edge that is not listed (a request kind acquiring locks in a new order) is reported.
                        let want: BTreeMap<usize, (String, usize)> = d.waits.iter().map(|(t, w, o)| (*t, (lock_name(w), *o))).collect();
                        let mut cycle_threads: Vec<usize> = vec![];
                        if let Some((&start, _)) = want.iter().next() {
                            let mut seen_at: BTreeMap<usize, usize> = BTreeMap::new();
                            let mut path = vec![];
                            let mut cur_t = start;
                            loop {
                                if let Some(&pos) = seen_at.get(&cur_t) {
                                    cycle_threads = path[pos..].to_vec();
                                    break;
                                }
                                seen_at.insert(cur_t, path.len());
                                path.push(cur_t);
                                match want.get(&cur_t) {
                                    Some((_, o)) if *o != usize::MAX => cur_t = *o,
                                    _ => break,
                                }
                            }
                        }
                        let mut cyc: Vec<String> = vec![];
                        let mut edges_sig: Vec<String> = vec![];
                        for (pos, t) in cycle_threads.iter().enumerate() {
                            let pred = cycle_threads[(pos + cycle_threads.len() - 1) % cycle_threads.len()];
                            let held = want.get(&pred).map(|x| x.0.clone()).unwrap_or_default();
                            let wanted = want.get(t).map(|x| x.0.clone()).unwrap_or_default();
                            cyc.push(format!("{}>{}", held, wanted));
                            let kind = kinds[*t].get(cur[*t]).cloned().unwrap_or("?");
                            edges_sig.push(format!("c20:deadlock-edge:{}:{}>{}", kind, held, wanted));
                        }
                        cyc.sort();
                        let cyc_only = cyc.join("|");
                        r.set_add("deadlock_cycles", &cyc_only);
                        let mut reqs: Vec<String> = cycle_threads.iter().map(|t| kinds[*t].get(cur[*t]).cloned().unwrap_or("?").to_string()).collect();
                        reqs.sort();
                        r.set_add("deadlock_request_sets", &format!("{} :: {}", reqs.join(" || "), cyc_only));
                        for sig in edges_sig.iter() {
                            if deadlock_reported.insert(sig.clone()) {
                                r.violation(sig, json!({"seed": cli.seed, "shard": shard, "set": set, "schedule": k, "threads": format!("{:?}", threads), "cycle": cyc_only, "requests_in_cycle": reqs, "all_edges_of_this_deadlock": edges_sig,
                                    "waits(thread,wanted,owner)": d.waits.iter().map(|(t, w, o)| json!([t, lock_name(w), o])).collect::<Vec<_>>(),
                                    "holds": d.holds.iter().map(|h| h.iter().map(|x| lock_name(x)).collect::<Vec<_>>()).collect::<Vec<_>>(),
                                    "trace_tail": trace.iter().rev().take(40).rev().map(|s| s.clone()).collect::<Vec<_>>() }));
                            } else {
                                r.count(&format!("violation:{}", sig));
                            }
                        }
                    }
                    ConcResult::Done(out) => {
                        r.count("schedules_completed");
                        // C01 under concurrency: every secret disclosed by a revoke reply must belong to a
                        // commitment whose successor was validated (in the prepared state, or by a
                        // validate request of this very set that returned Ok)
                        for (t, reqs) in threads.iter().enumerate() {
                            for (qi, q) in reqs.iter().enumerate() {
                                if let Req::Revoke { c } = q {
                                    let rep = out.replies.get(t).and_then(|x| x.get(qi)).cloned().unwrap_or_default();
                                    if let Some(pos) = rep.find("Some(\"") {
                                        let hexs: String = rep[pos + 6..].chars().take(64).collect();
                                        if let Ok(bytes) = hex::decode(&hexs) {
                                            if bytes.len() == 32 {
                                                let mut sec = [0u8; 32];
                                                sec.copy_from_slice(&bytes);
                                                let pr = &base.preps[*c];
                                                let seed = pr.m.holder_commitment_seed.unwrap();
                                                r.count("c01_under_concurrency.secrets_checked");
                                                let validated_now = pr.pending
                                                    || threads.iter().enumerate().any(|(t2, rs)| rs.iter().enumerate().any(|(q2, x)| matches!(x, Req::ValidateHolder { c: c2 } if c2 == c) && out.replies[t2].get(q2).map(|s| s.starts_with("ok")).unwrap_or(false)));
                                                match oracle::identify_secret(&seed, &sec, pr.next_holder + 8) {
                                                    Some(k) => {
                                                        let ok = k + 1 < pr.next_holder || (k + 1 == pr.next_holder && validated_now);
                                                        if !ok {
                                                            r.violation("c20:c01-violated-under-concurrency:secret-disclosed-without-validated-successor", json!({"seed": cli.seed, "shard": shard, "set": set, "schedule": k, "threads": format!("{:?}", threads), "replies": out.replies, "disclosed": k, "next_holder": pr.next_holder, "pending": pr.pending}));
                                                        }
                                                    }
                                                    None => r.count("c01_under_concurrency.unidentified"),
                                                }
                                            }
                                        }
                                    }
                                }
                            }
                        }
                        if refs.contains(&out) {
                            r.count("linearizable");
                        } else {
                            // compare with the closest sequential reference (same replies preferred, then fewest differing labels)
                            let to_map = |st: &str| -> BTreeMap<String, String> { st.lines().filter_map(|l| l.split_once('=')).map(|(k, v)| (k.to_string(), v.to_string())).collect() };
                            let a = to_map(&out.state);
                            let mut best: Option<(usize, bool, Vec<(String, String, String)>)> = None;
                            for (ri, x) in refs.iter().enumerate() {
                                let d = snapshot::diff(&to_map(&x.state), &a);
                                let same_replies = x.replies == out.replies;
                                let score = d.len() + if same_replies { 0 } else { 1000 };
                                if best.as_ref().map(|b| score < b.2.len() + if b.1 { 0 } else { 1000 }).unwrap_or(true) {
                                    best = Some((ri, same_replies, d));
                                }
                            }
                            let (ri, same_replies, d) = best.unwrap();
                            let any_panic = out.replies.iter().flatten().any(|s| s.starts_with("panic"));
                            let labels: BTreeSet<String> = d.iter().map(|x| {
                                let k = &x.0;
                                if k.starts_with("chan.") { format!("chan.{}", if k.matches('.').count() >= 2 { k.rsplit('.').next().unwrap_or("") } else { "slot" }) }
                                else if k.starts_with("store.") { format!("store.{}", k.trim_start_matches("store.").split('/').next().unwrap_or("")) }
                                else if k.starts_with("tracker.listener") { "tracker.listener".into() }
                                else { k.clone() }
                            }).collect();
                            let mut reply_kinds: BTreeSet<&str> = BTreeSet::new();
                            if !same_replies {
                                for (t, rs) in out.replies.iter().enumerate() {
                                    for (qi, rep) in rs.iter().enumerate() {
                                        if refs[ri].replies.get(t).and_then(|x| x.get(qi)) != Some(rep) {
                                            reply_kinds.insert(kinds[t][qi]);
                                        }
                                    }
                                }
                            }
                            let sig = format!("c20:not-linearizable:{}replies[{}]:state[{}]", if any_panic { "panic:" } else { "" }, reply_kinds.into_iter().collect::<Vec<_>>().join("+"), labels.into_iter().collect::<Vec<_>>().join("+"));
                            r.violation(&sig, json!({"seed": cli.seed, "shard": shard, "set": set, "schedule": k, "threads": format!("{:?}", threads), "concurrent_replies": out.replies,
                                "sequential_replies": refs.iter().map(|x| json!(x.replies)).collect::<Vec<_>>(), "closest_reference": ri, "state_diff_vs_closest_reference": snapshot::brief(&d)}));
                        }
                    }
                }
            }
            if set == 0 && shard == 0 {
                r.sample(json!({"threads": format!("{:?}", threads), "sequential_orders": orders.len(), "distinct_sequential_outcomes": refs.len(), "schedules": schedules_per_set}));
            }
            r.set_add("request_kinds", &kinds.iter().map(|k| k.join("/")).collect::<Vec<_>>().join(" || "));
        }
    });
    report.require("schedules_completed", 500);
    report.require("request_sets", 50);
    if report.get("schedule_watchdog_timeouts") * 50 > report.evaluations {
        report.inconclusive("more than 2% of the schedules hit the wall-clock watchdog");
    }
    let _ = fnv_str;
    finish(
        report,
        FinishSpec {
            cli: &cli,
            level: "exploration",
            rule: "request sets of 2-3 threads x 1-2 requests (commitment updates on two channels, forget/new/setup channel, balance, heartbeat, keysend, on-chain check, add block, allowlist) on signers restored from the same store; each set is run under many seeded schedules (random walk and PCT with 2-3 priority change points) of a cooperative scheduler that switches threads at every lock attempt and release of the instrumented mutexes. Oracles: exact wait-for-cycle deadlock detection; replies + final state + store dump equal to one of the sequential orders. distinct = distinct schedule signatures (hash of the thread/lock-class event sequence)",
            assumptions: vec![
                "all shared state of the signer is behind the instrumented prelude Mutex (safe Rust), so switching threads only at lock operations reaches every relevant interleaving of these requests".into(),
                "sampled schedules, not all schedules; deadlocks needing 3 threads in a specific order are only likely in the thorough tier".into(),
            ],
            start,
            extra_coverage: Default::default(),
        },
    );
}
