//! C16 — the key-version-value stores never roll back and agree with each other.
//!
//! Part A ("lockstep"): `MemoryKVVStore`, `RedbKVVStore` (tempdir, with reopen points) and a small
//! reference map are driven with the same operation sequence over 4 keys x versions 0-5 (plus
//! occasional large ones) x 3 values.  After *every* operation each real backend is observed in
//! full (`get_prefix("")`, `get` and `get_version` of every key) and judged
//!   * against itself (observation consistency: get / get_version / dump tell the same story),
//!   * against its previous observation (a version never decreases, a key never disappears, equal
//!     version => equal content, a refused request changes nothing),
//!   * against the other backend (identical result and identical contents),
//!   * against the reference (accepted/refused, returned values, contents),
//!   * redb against itself across a reopen.
//! For a `put_batch` that names one key twice the property text does not fix whether entries are
//! judged against the contents before the batch or against the earlier entries of the batch; the
//! reference then allows both readings, but the two real backends must still agree with each other.
//!
//! Part B ("cloud"): `CloudKVVStore<MemoryKVVStore>` under the daemon's protocol
//! `enter (put|put_with_version|put_batch|delete|get|get_version)* prepare commit`.  Purely
//! observational monitors: after every call the transaction's view of every key (`get`,
//! `get_version`) and the local store (`get_prefix("")`, `get_local`) are read;
//!   * a key's version in the view never decreases, inside and across transactions,
//!   * an accepted write is what `get` returns afterwards,
//!   * the local store changes only at `commit`, and then to exactly `before (+) prepare()`.

use lightning_signer::persist::{Error, Mutations};
use serde_json::{json, Value};
use std::collections::{BTreeMap, BTreeSet};
use std::path::{Path, PathBuf};
use std::time::Instant;
use vls_persist::kvv::cloud::CloudKVVStore;
use vls_persist::kvv::memory::MemoryKVVStore;
use vls_persist::kvv::redb::RedbKVVStore;
use vls_persist::kvv::{KVVStore, KVV};
use vls_verif::report::{self, finish, run_sharded, FinishSpec};
use vls_verif::{Cli, Report, Rng};

type VV = (u64, Vec<u8>);
type Map = BTreeMap<String, VV>;

const KEYS: [&str; 4] = ["a", "a/b", "a/c", "b"];
const PREFIXES: [&str; 7] = ["", "a", "a/", "a/b", "b", "c", "a/bx"];
const LARGE: [u64; 4] = [1000, 1 << 32, u64::MAX - 1, u64::MAX];

fn values() -> [Vec<u8>; 3] {
    [vec![], vec![0x78], vec![0x79, 0x79]]
}

// ---------------------------------------------------------------------------------------------
// operations and outcomes
// ---------------------------------------------------------------------------------------------

#[derive(Clone, Debug)]
enum Op {
    Put(usize, usize),
    Pwv(usize, u64, usize),
    Batch(Vec<(usize, u64, usize)>),
    Delete(usize),
    Get(usize),
    GetVersion(usize),
    GetPrefix(usize),
    Reopen,
}

impl Op {
    fn kind(&self) -> &'static str {
        match self {
            Op::Put(..) => "put",
            Op::Pwv(..) => "put_with_version",
            Op::Batch(es) =>
                if has_dup(es) {
                    "put_batch(dup-key)"
                } else {
                    "put_batch"
                },
            Op::Delete(..) => "delete",
            Op::Get(..) => "get",
            Op::GetVersion(..) => "get_version",
            Op::GetPrefix(..) => "get_prefix",
            Op::Reopen => "reopen",
        }
    }
    fn is_write(&self) -> bool {
        matches!(self, Op::Put(..) | Op::Pwv(..) | Op::Batch(..) | Op::Delete(..))
    }
    fn show(&self) -> String {
        let vals = values();
        match self {
            Op::Put(k, v) => format!("put({},\"{}\")", KEYS[*k], hex::encode(&vals[*v])),
            Op::Pwv(k, ver, v) =>
                format!("put_with_version({},{},\"{}\")", KEYS[*k], ver, hex::encode(&vals[*v])),
            Op::Batch(es) => format!(
                "put_batch[{}]",
                es.iter()
                    .map(|(k, ver, v)| format!("({},{},\"{}\")", KEYS[*k], ver, hex::encode(&vals[*v])))
                    .collect::<Vec<_>>()
                    .join(",")
            ),
            Op::Delete(k) => format!("delete({})", KEYS[*k]),
            Op::Get(k) => format!("get({})", KEYS[*k]),
            Op::GetVersion(k) => format!("get_version({})", KEYS[*k]),
            Op::GetPrefix(p) => format!("get_prefix(\"{}\")", PREFIXES[*p]),
            Op::Reopen => "reopen".to_string(),
        }
    }
}

fn has_dup(es: &[(usize, u64, usize)]) -> bool {
    let mut seen = BTreeSet::new();
    es.iter().any(|(k, _, _)| !seen.insert(*k))
}

/// What a call returned: class = ok | version-mismatch | <other error kind> | panic,
/// payload = the returned value rendered canonically (for ok) or the panic text.
#[derive(Clone, Debug, PartialEq, Eq)]
struct Outcome {
    class: String,
    payload: String,
}

impl Outcome {
    fn ok(&self) -> bool {
        self.class == "ok"
    }
    /// same observable result (panic texts are not compared, they carry file names)
    fn same(&self, o: &Outcome) -> bool {
        self.class == o.class && (self.class != "ok" || self.payload == o.payload)
    }
    fn show(&self) -> String {
        if self.payload.is_empty() {
            self.class.clone()
        } else {
            format!("{}:{}", self.class, self.payload)
        }
    }
}

fn ekind(e: &Error) -> &'static str {
    match e {
        Error::VersionMismatch => "version-mismatch",
        Error::Unavailable(_) => "err-unavailable",
        Error::NotFound(_) => "err-not-found",
        Error::AlreadyExists(_) => "err-already-exists",
        Error::Internal(_) => "err-internal",
        Error::SerdeError(_) => "err-serde",
    }
}

fn show_vv(vv: &Option<VV>) -> String {
    match vv {
        None => "None".to_string(),
        Some((v, val)) => format!("({},\"{}\")", v, hex::encode(val)),
    }
}

fn show_ver(v: &Option<u64>) -> String {
    match v {
        None => "None".to_string(),
        Some(v) => format!("{}", v),
    }
}

fn show_list<'a>(it: impl Iterator<Item = (&'a String, &'a VV)>) -> String {
    let v: Vec<String> =
        it.map(|(k, (ver, val))| format!("{}=({},\"{}\")", k, ver, hex::encode(val))).collect();
    format!("[{}]", v.join(","))
}

fn map_json(m: &Map) -> Value {
    json!(m.iter().map(|(k, (v, val))| json!([k, v, hex::encode(val)])).collect::<Vec<_>>())
}

fn kvvs_of(es: &[(usize, u64, usize)]) -> Vec<KVV> {
    let vals = values();
    es.iter().map(|(k, ver, v)| KVV(KEYS[*k].to_string(), (*ver, vals[*v].clone()))).collect()
}

fn unit(r: Result<(), Error>) -> Outcome {
    match r {
        Ok(()) => Outcome { class: "ok".into(), payload: String::new() },
        Err(e) => Outcome { class: ekind(&e).into(), payload: String::new() },
    }
}

/// run one operation of the KVVStore alphabet on a real store
fn run_op<S: KVVStore>(s: &S, op: &Op) -> Outcome {
    let vals = values();
    let r = report::catch(|| match op {
        Op::Put(k, v) => unit(s.put(KEYS[*k], vals[*v].clone())),
        Op::Pwv(k, ver, v) => unit(s.put_with_version(KEYS[*k], *ver, vals[*v].clone())),
        Op::Batch(es) => unit(s.put_batch(kvvs_of(es))),
        Op::Delete(k) => unit(s.delete(KEYS[*k])),
        Op::Get(k) => match s.get(KEYS[*k]) {
            Ok(vv) => Outcome { class: "ok".into(), payload: show_vv(&vv) },
            Err(e) => Outcome { class: ekind(&e).into(), payload: String::new() },
        },
        Op::GetVersion(k) => match s.get_version(KEYS[*k]) {
            Ok(v) => Outcome { class: "ok".into(), payload: show_ver(&v) },
            Err(e) => Outcome { class: ekind(&e).into(), payload: String::new() },
        },
        Op::GetPrefix(p) => match s.get_prefix(PREFIXES[*p]) {
            Ok(it) => {
                let l: Vec<(String, VV)> = it.map(|kvv| kvv.into_inner()).collect();
                Outcome { class: "ok".into(), payload: show_list(l.iter().map(|(k, vv)| (k, vv))) }
            }
            Err(e) => Outcome { class: ekind(&e).into(), payload: String::new() },
        },
        Op::Reopen => Outcome { class: "ok".into(), payload: String::new() },
    });
    match r {
        Ok(o) => o,
        Err(p) => Outcome { class: "panic".into(), payload: p },
    }
}

/// Full observation of a store through its public read calls.
#[derive(Clone, Debug, PartialEq, Eq)]
struct Obs {
    /// get_prefix("") in the order returned
    dump: Vec<(String, VV)>,
    gets: Vec<Option<VV>>,
    vers: Vec<Option<u64>>,
}

impl Obs {
    fn map(&self) -> Map {
        self.dump.iter().cloned().collect()
    }
    /// do get_prefix(""), get and get_version tell the same story?
    fn inconsistency(&self) -> Option<String> {
        let m = self.map();
        if m.len() != self.dump.len() {
            return Some("get_prefix(\"\") returned a key twice".into());
        }
        if !self.dump.windows(2).all(|w| w[0].0 < w[1].0) {
            return Some("get_prefix(\"\") not in key order".into());
        }
        for (i, k) in KEYS.iter().enumerate() {
            if m.get(*k) != self.gets[i].as_ref() {
                return Some(format!(
                    "get({}) = {} but get_prefix(\"\") has {}",
                    k,
                    show_vv(&self.gets[i]),
                    show_vv(&m.get(*k).cloned())
                ));
            }
            if self.gets[i].as_ref().map(|x| x.0) != self.vers[i] {
                return Some(format!(
                    "get_version({}) = {} but get({}) = {}",
                    k,
                    show_ver(&self.vers[i]),
                    k,
                    show_vv(&self.gets[i])
                ));
            }
        }
        None
    }
}

fn observe<S: KVVStore>(s: &S) -> Result<Obs, String> {
    let r = report::catch(|| -> Result<Obs, Error> {
        let dump: Vec<(String, VV)> = s.get_prefix("")?.map(|kvv| kvv.into_inner()).collect();
        let mut gets = vec![];
        let mut vers = vec![];
        for k in KEYS.iter() {
            gets.push(s.get(k)?);
            vers.push(s.get_version(k)?);
        }
        Ok(Obs { dump, gets, vers })
    });
    match r {
        Ok(Ok(o)) => Ok(o),
        Ok(Err(e)) => Err(format!("read failed: {:?}", e)),
        Err(p) => Err(format!("read panicked: {}", p)),
    }
}

/// State-level obligations between two consecutive observations of one store.
/// Returns (relation, text) of the first broken one.
fn transition_fault(pre: &Map, post: &Map, accepted: bool) -> Option<(&'static str, String)> {
    for (k, (v, val)) in pre.iter() {
        match post.get(k) {
            None => return Some(("key-disappeared", format!("{} was ({},..) and is gone", k, v))),
            Some((pv, pval)) => {
                if pv < v {
                    return Some(("version-decreased", format!("{}: {} -> {}", k, v, pv)));
                }
                if pv == v && pval != val {
                    return Some((
                        "same-version-content-changed",
                        format!("{} at version {}: \"{}\" -> \"{}\"", k, v, hex::encode(val), hex::encode(pval)),
                    ));
                }
            }
        }
    }
    if !accepted && pre != post {
        return Some(("refused-but-contents-changed", String::new()));
    }
    None
}

// ---------------------------------------------------------------------------------------------
// the reference
// ---------------------------------------------------------------------------------------------

/// one write judged against a map: true = accepted (map updated)
fn ref_write(m: &mut Map, k: &str, ver: u64, val: &[u8]) -> bool {
    if let Some((cv, cval)) = m.get(k) {
        if ver < *cv {
            return false;
        }
        if ver == *cv {
            return cval.as_slice() == val;
        }
    }
    m.insert(k.to_string(), (ver, val.to_vec()));
    true
}

/// A reading of the property for one request: accepted?, value returned (reads), contents after.
#[derive(Clone, Debug)]
struct Cand {
    reading: &'static str,
    accepted: bool,
    payload: String,
    post: Map,
}

/// Reference verdict(s) for `op` on contents `m`.  One candidate, except for a batch naming a key
/// twice when the two readings (entries judged against the contents before the batch / against the
/// batch so far) differ.
fn reference(m: &Map, op: &Op) -> Vec<Cand> {
    let vals = values();
    let one = |accepted: bool, payload: String, post: Map| {
        vec![Cand { reading: "only", accepted, payload, post }]
    };
    match op {
        Op::Put(k, v) => {
            let mut post = m.clone();
            let next = match m.get(KEYS[*k]) {
                None => Some(0),
                Some((cv, _)) => cv.checked_add(1), // no version above u64::MAX: nothing can be accepted
            };
            let acc = match next {
                Some(n) => ref_write(&mut post, KEYS[*k], n, &vals[*v]),
                None => false,
            };
            one(acc, String::new(), post)
        }
        Op::Delete(k) => reference(m, &Op::Put(*k, 0)),
        Op::Pwv(k, ver, v) => {
            let mut post = m.clone();
            let acc = ref_write(&mut post, KEYS[*k], *ver, &vals[*v]);
            one(acc, String::new(), post)
        }
        Op::Batch(es) => {
            // reading 1: every entry judged against the contents before the batch, then all applied in order
            let mut all_ok = true;
            for (k, ver, v) in es.iter() {
                let mut scratch = m.clone();
                if !ref_write(&mut scratch, KEYS[*k], *ver, &vals[*v]) {
                    all_ok = false;
                }
            }
            let mut post1 = m.clone();
            if all_ok {
                for (k, ver, v) in es.iter() {
                    post1.insert(KEYS[*k].to_string(), (*ver, vals[*v].clone()));
                }
            }
            // reading 2: entries judged one after the other
            let mut post2 = m.clone();
            let mut seq_ok = true;
            for (k, ver, v) in es.iter() {
                if !ref_write(&mut post2, KEYS[*k], *ver, &vals[*v]) {
                    seq_ok = false;
                    break;
                }
            }
            if !seq_ok {
                post2 = m.clone();
            }
            if all_ok == seq_ok && post1 == post2 {
                one(all_ok, String::new(), post1)
            } else {
                assert!(has_dup(es), "readings can only differ for a batch naming a key twice");
                vec![
                    Cand { reading: "entries-vs-contents-before-batch", accepted: all_ok, payload: String::new(), post: post1 },
                    Cand { reading: "entries-in-sequence", accepted: seq_ok, payload: String::new(), post: post2 },
                ]
            }
        }
        Op::Get(k) => one(true, show_vv(&m.get(KEYS[*k]).cloned()), m.clone()),
        Op::GetVersion(k) => one(true, show_ver(&m.get(KEYS[*k]).map(|x| x.0)), m.clone()),
        Op::GetPrefix(p) =>
            one(true, show_list(m.iter().filter(|(k, _)| k.starts_with(PREFIXES[*p]))), m.clone()),
        Op::Reopen => one(true, String::new(), m.clone()),
    }
}

// ---------------------------------------------------------------------------------------------
// generators
// ---------------------------------------------------------------------------------------------

fn gen_version(rng: &mut Rng, cur: Option<u64>, large_w: u32) -> u64 {
    match rng.weighted(&[28, 16, 14, 26, 10, large_w]) {
        0 => cur.map(|c| c.saturating_add(1)).unwrap_or(0),
        1 => cur.unwrap_or(0),
        2 => cur.map(|c| c.saturating_sub(1)).unwrap_or(1),
        3 => rng.below(6),
        4 => cur.map(|c| c.saturating_add(rng.range(2, 3))).unwrap_or(rng.below(6)),
        _ => LARGE[rng.weighted(&[40, 30, 20, 10])],
    }
}

/// value index; when writing at the current version prefer the current content (a legal rewrite)
fn gen_value(rng: &mut Rng, cur: Option<&VV>, ver: u64) -> usize {
    let vals = values();
    if let Some((cv, cval)) = cur {
        if *cv == ver && rng.chance(55, 100) {
            if let Some(i) = vals.iter().position(|v| v == cval) {
                return i;
            }
        }
    }
    rng.usize(3)
}

/// an entry that the contents `m` would accept as a real advance or legal rewrite
fn gen_good_entry(rng: &mut Rng, m: &Map, k: usize) -> (usize, u64, usize) {
    let vals = values();
    match m.get(KEYS[k]) {
        None => (k, rng.below(4), rng.usize(3)),
        Some((cv, cval)) => {
            if rng.chance(25, 100) || *cv == u64::MAX {
                (k, *cv, vals.iter().position(|v| v == cval).unwrap_or(0))
            } else {
                (k, cv.saturating_add(rng.range(1, 2)), rng.usize(3))
            }
        }
    }
}

/// an entry that the contents `m` must refuse (None if there is none for this key)
fn gen_bad_entry(rng: &mut Rng, m: &Map, k: usize) -> Option<(usize, u64, usize)> {
    let vals = values();
    let (cv, cval) = m.get(KEYS[k])?;
    if *cv > 0 && rng.bool() {
        Some((k, rng.range(cv.saturating_sub(2), cv - 1), rng.usize(3)))
    } else {
        let other: Vec<usize> = (0..3).filter(|i| &vals[*i] != cval).collect();
        Some((k, *cv, *rng.pick(&other)))
    }
}

fn gen_batch(rng: &mut Rng, m: &Map, r: &mut Report, tag: &str) -> Vec<(usize, u64, usize)> {
    let n = rng.weighted(&[4, 22, 34, 26, 14]);
    let mut es: Vec<(usize, u64, usize)> = vec![];
    let shape = rng.weighted(&[34, 24, 30, 12]);
    match shape {
        // distinct keys, all acceptable
        0 | 1 => {
            let mut ks: Vec<usize> = (0..4).collect();
            rng.shuffle(&mut ks);
            for k in ks.into_iter().take(n) {
                es.push(gen_good_entry(rng, m, k));
            }
            // 1: exactly one bad entry at a random position
            if shape == 1 && !es.is_empty() {
                let pos = rng.usize(es.len());
                if let Some(bad) = gen_bad_entry(rng, m, es[pos].0) {
                    es[pos] = bad;
                    r.count(&format!("{}.gen.batch_with_one_bad_entry", tag));
                }
            }
        }
        // a key named twice (or more): entries near the current version in every relation
        2 => {
            let k = rng.usize(4);
            let cur = m.get(KEYS[k]);
            let times = rng.range(2, 3) as usize;
            for _ in 0..times {
                let ver = gen_version(rng, cur.map(|x| x.0), 2);
                es.push((k, ver, gen_value(rng, cur, ver)));
            }
            for _ in times..n.max(times) {
                let k2 = rng.usize(4);
                es.push(gen_good_entry(rng, m, k2));
            }
            rng.shuffle(&mut es);
        }
        // anything
        _ => {
            for _ in 0..n {
                let k = rng.usize(4);
                let cur = m.get(KEYS[k]);
                let ver = gen_version(rng, cur.map(|x| x.0), 2);
                es.push((k, ver, gen_value(rng, cur, ver)));
            }
        }
    }
    es
}

fn gen_write(rng: &mut Rng, m: &Map, r: &mut Report, tag: &str, large_w: u32) -> Op {
    match rng.weighted(&[24, 38, 28, 10]) {
        0 => Op::Put(rng.usize(4), rng.usize(3)),
        1 => {
            let k = rng.usize(4);
            let cur = m.get(KEYS[k]);
            let ver = gen_version(rng, cur.map(|x| x.0), large_w);
            Op::Pwv(k, ver, gen_value(rng, cur, ver))
        }
        2 => Op::Batch(gen_batch(rng, m, r, tag)),
        _ => Op::Delete(rng.usize(4)),
    }
}

/// relation of a written version to the current one, for the distinct-situation hash
fn rel(cur: Option<&VV>, ver: u64, val: &[u8]) -> &'static str {
    match cur {
        None => "new",
        Some((cv, cval)) =>
            if ver < *cv {
                "below"
            } else if ver == *cv {
                if cval.as_slice() == val {
                    "equal-same"
                } else {
                    "equal-diff"
                }
            } else if ver == cv.wrapping_add(1) {
                "next"
            } else if ver >= 1000 {
                "far-above"
            } else {
                "above"
            },
    }
}

fn situation(m: &Map, op: &Op) -> String {
    let vals = values();
    match op {
        Op::Put(k, _) | Op::Delete(k) => {
            let c = m.get(KEYS[*k]);
            format!("{}:{}", op.kind(), match c {
                None => "new",
                Some((v, _)) if *v == u64::MAX => "at-max",
                Some((v, _)) if *v >= 1000 => "large",
                _ => "small",
            })
        }
        Op::Pwv(k, ver, v) => format!("pwv:{}", rel(m.get(KEYS[*k]), *ver, &vals[*v])),
        Op::Batch(es) => {
            let mut rels: Vec<&str> = es.iter().map(|(k, ver, v)| rel(m.get(KEYS[*k]), *ver, &vals[*v])).collect();
            rels.sort();
            rels.dedup();
            format!("{}:{}:{}", op.kind(), es.len().min(3), rels.join("+"))
        }
        Op::Get(k) | Op::GetVersion(k) => format!("{}:{}", op.kind(), m.contains_key(KEYS[*k])),
        Op::GetPrefix(p) => format!("get_prefix:{}:{}", PREFIXES[*p], m.len().min(2)),
        Op::Reopen => format!("reopen:{}", m.len().min(2)),
    }
}

// ---------------------------------------------------------------------------------------------
// Part A: memory / redb / reference in lockstep
// ---------------------------------------------------------------------------------------------

struct Ctx<'a> {
    seed: u64,
    shard: usize,
    history: u64,
    ops: &'a Vec<String>,
}

impl<'a> Ctx<'a> {
    fn detail(&self, extra: Value) -> Value {
        json!({"part": "lockstep", "seed": self.seed, "shard": self.shard, "history": self.history,
               "operations_so_far_[op => memory | redb]": self.ops, "at": extra})
    }
}

fn open_redb(path: &Path) -> Result<RedbKVVStore, String> {
    report::catch(|| RedbKVVStore::new(path))
}

/// one history: fresh stores, `steps` operations, stops at the first divergence
fn lockstep_history(rng: &mut Rng, r: &mut Report, base: &Path, seed: u64, shard: usize, h: u64, steps: u64) {
    let path: PathBuf = base.join(format!("h{}", h));
    let mem = MemoryKVVStore::new([1u8; 16]);
    let mut redb = match open_redb(&path) {
        Ok(s) => Some(s),
        Err(p) => {
            r.inconclusive(&format!("cannot create redb store: {}", p));
            return;
        }
    };
    let mut model: Map = Map::new();
    let mut ops: Vec<String> = vec![];
    let mut after_reopen = 0u64; // ops since the last reopen (for the situation hash)
    let mut reopened = false;
    let mut last_refused_batch = false;

    let (mut mem_obs, mut redb_obs) = match (observe(&mem), observe(redb.as_ref().unwrap())) {
        (Ok(a), Ok(b)) => (a, b),
        (a, b) => {
            r.inconclusive(&format!("initial observation failed: {:?} {:?}", a.err(), b.err()));
            return;
        }
    };

    macro_rules! violate {
        ($sig:expr, $extra:expr) => {{
            let ctx = Ctx { seed, shard, history: h, ops: &ops };
            r.violation(&$sig, ctx.detail($extra));
        }};
    }

    for step in 0..steps {
        // ---- choose the operation
        let op = if last_refused_batch && rng.chance(14, 100) {
            Op::Reopen // a reopen right after an aborted redb transaction
        } else {
            // (opening a redb store costs as much as ~20 writes: reopen points are kept sparse)
            match rng.weighted(&[70, 9, 7, 10, 4]) {
                0 => gen_write(rng, &model, r, "ls", 3),
                1 => Op::Get(rng.usize(4)),
                2 => Op::GetVersion(rng.usize(4)),
                3 => Op::GetPrefix(rng.usize(PREFIXES.len())),
                _ => Op::Reopen,
            }
        };
        r.eval(1);
        let kind = op.kind();
        let sit = situation(&model, &op);

        // ---- reopen: redb only
        if let Op::Reopen = op {
            let before_id = redb.as_ref().unwrap().signer_id();
            drop(redb.take());
            let s = match open_redb(&path) {
                Ok(s) => s,
                Err(p) => {
                    // the property says the store returns the same contents after being reopened
                    ops.push(format!("{} => - | panic:{}", op.show(), p));
                    violate!("kvv:redb:reopen:panicked".to_string(), json!({"step": step, "panic": p}));
                    return;
                }
            };
            let o = match observe(&s) {
                Ok(o) => o,
                Err(e) => {
                    ops.push(format!("{} => - | {}", op.show(), e));
                    violate!("kvv:redb:reopen:unreadable-afterwards".to_string(), json!({"step": step, "error": e}));
                    return;
                }
            };
            r.count("ls.reopen");
            r.count("ls.rule.reopen_same_contents.checked");
            if last_refused_batch {
                r.count("ls.reopen.right_after_refused_batch");
            }
            ops.push(format!("{} => - | ok {}", op.show(), show_list(o.dump.iter().map(|(k, v)| (k, v)))));
            if o != redb_obs {
                violate!(
                    "kvv:redb:reopen:contents-differ".to_string(),
                    json!({"step": step, "before": map_json(&redb_obs.map()), "after": map_json(&o.map()),
                           "get_version_before": redb_obs.vers, "get_version_after": o.vers})
                );
                return;
            }
            if s.signer_id() != before_id {
                r.note("redb signer id changed across reopen (not part of C16)");
            }
            redb = Some(s);
            reopened = true;
            after_reopen = 0;
            last_refused_batch = false;
            r.distinct_str(&format!("ls:{}:ok", sit));
            continue;
        }

        // ---- run on both real stores, observe both in full
        let rs = redb.as_ref().unwrap();
        let mo = run_op(&mem, &op);
        let ro = run_op(rs, &op);
        ops.push(format!("{} => {} | {}", op.show(), mo.show(), ro.show()));
        r.count(&format!("ls.{}.{}", kind, if mo.ok() { "ok" } else { mo.class.as_str() }));
        r.set_add("ls.outcome_classes", &format!("{}:memory={}:redb={}", kind, mo.class, ro.class));
        r.distinct_str(&format!(
            "ls:{}:{}:{}:{}",
            sit,
            mo.class,
            ro.class,
            if reopened && after_reopen < 2 { "fresh-reopen" } else { "-" }
        ));
        after_reopen += 1;
        if mo.class == "panic" || ro.class == "panic" {
            r.count("ls.panic");
            r.note(&format!("panic in {}: memory={} redb={}", kind, mo.show(), ro.show()));
        }

        let (mem_post, redb_post) = match (observe(&mem), observe(rs)) {
            (Ok(a), Ok(b)) => (a, b),
            (a, b) => {
                // a store that cannot be read any more after a request: reads do not return the last accepted write
                violate!(
                    format!("kvv:{}:store-unreadable-afterwards", kind),
                    json!({"step": step, "memory": a.err(), "redb": b.err()})
                );
                return;
            }
        };

        let mut stop = false;

        // ---- each backend against itself
        for (name, pre, post, out) in
            [("memory", &mem_obs, &mem_post, &mo), ("redb", &redb_obs, &redb_post, &ro)]
        {
            r.count("ls.rule.reads_consistent.checked");
            if let Some(why) = post.inconsistency() {
                violate!(
                    format!("kvv:{}:{}:get-get_version-get_prefix-disagree", name, kind),
                    json!({"step": step, "op": op.show(), "why": why, "dump": map_json(&post.map()),
                           "get_version": post.vers})
                );
                stop = true;
            }
            let accepted = out.ok() && op.is_write();
            r.count_n("ls.rule.version_never_decreases.checked", pre.dump.len() as u64);
            if let Some((relation, text)) = transition_fault(&pre.map(), &post.map(), accepted) {
                violate!(
                    format!("kvv:{}:{}:{}", name, kind, relation),
                    json!({"step": step, "op": op.show(), "result": out.show(), "what": text,
                           "before": map_json(&pre.map()), "after": map_json(&post.map())})
                );
                stop = true;
            }
        }

        // ---- against the reference
        let cands = reference(&model, &op);
        if cands.len() > 1 {
            r.count("ls.batch.dup_key.readings_differ");
        }
        let mut chosen: Option<Cand> = None;
        for (name, post, out) in [("memory", &mem_post, &mo), ("redb", &redb_post, &ro)] {
            let pm = post.map();
            let hit = cands.iter().find(|c| {
                c.accepted == out.ok() && (op.is_write() || c.payload == out.payload) && c.post == pm
            });
            match hit {
                Some(c) => {
                    if name == "memory" {
                        chosen = Some(c.clone());
                    }
                    if cands.len() > 1 {
                        r.count(&format!("ls.batch.dup_key.{}.follows:{}", name, c.reading));
                    }
                }
                None => {
                    let want: Vec<Value> = cands
                        .iter()
                        .map(|c| json!({"reading": c.reading, "accepted": c.accepted, "returns": c.payload, "contents": map_json(&c.post)}))
                        .collect();
                    let relation = if cands.iter().all(|c| c.accepted != out.ok()) {
                        if out.ok() {
                            "accepted-but-reference-refuses"
                        } else {
                            "refused-but-reference-accepts"
                        }
                    } else if op.is_write() {
                        "contents-differ-from-reference"
                    } else {
                        "read-differs-from-last-accepted-write"
                    };
                    violate!(
                        format!("kvv:{}:{}:{}", name, kind, relation),
                        json!({"step": step, "op": op.show(), "result": out.show(), "contents_after": map_json(&pm),
                               "reference_before": map_json(&model), "reference_allows": want})
                    );
                    stop = true;
                }
            }
        }

        // ---- the two backends against each other
        r.count("ls.rule.backends_agree.checked");
        if !mo.same(&ro) {
            let vd = if mo.class == ro.class { ":returned-values-differ" } else { "" };
            let diverged = mem_post != redb_post;
            violate!(
                format!("kvv:{}:memory={}:redb={}{}", kind, mo.class, ro.class, vd),
                json!({"step": step, "op": op.show(), "memory_result": mo.show(), "redb_result": ro.show(),
                       "contents_before": map_json(&mem_obs.map()),
                       "memory_after": map_json(&mem_post.map()), "redb_after": map_json(&redb_post.map()),
                       "contents_diverged_afterwards": diverged})
            );
            if diverged {
                r.count("ls.observed.results_differ.contents_diverged");
                stop = true;
            } else {
                // results differ but both still hold the same contents: the history can go on
                r.count("ls.observed.results_differ.contents_still_equal");
            }
        } else if mem_post != redb_post {
            violate!(
                format!("kvv:{}:memory-and-redb-contents-differ", kind),
                json!({"step": step, "op": op.show(), "result": mo.show(), "memory_after": map_json(&mem_post.map()), "redb_after": map_json(&redb_post.map()),
                       "memory_get_version": mem_post.vers, "redb_get_version": redb_post.vers})
            );
            stop = true;
        }

        // ---- antecedent bookkeeping (what was actually exercised), from the reference's point of view
        let vals = values();
        match &op {
            Op::Pwv(k, ver, v) => match rel(model.get(KEYS[*k]), *ver, &vals[*v]) {
                "equal-diff" => r.count(if mo.ok() { "ls.rule.equal_version_other_content.accepted" } else { "ls.rule.equal_version_other_content.refused" }),
                "equal-same" => r.count("ls.write.equal_version_same_content"),
                "below" => r.count(if mo.ok() { "ls.rule.lower_version.accepted" } else { "ls.rule.lower_version.refused" }),
                "far-above" => r.count("ls.write.large_version"),
                _ => {}
            },
            Op::Batch(es) => {
                if has_dup(es) {
                    r.count("ls.batch.dup_key");
                }
                if es.is_empty() {
                    r.count("ls.batch.empty");
                }
                let bad = es
                    .iter()
                    .filter(|(k, ver, v)| matches!(rel(model.get(KEYS[*k]), *ver, &vals[*v]), "below" | "equal-diff"))
                    .count();
                if mo.ok() {
                    r.count("ls.rule.batch_applied_entirely.checked");
                } else {
                    r.count("ls.rule.refused_batch_changes_nothing.checked");
                    if bad == 1 && es.len() > 1 {
                        r.count("ls.rule.refused_batch_changes_nothing.one_bad_among_good");
                    }
                }
            }
            Op::Put(k, _) | Op::Delete(k) => {
                if model.get(KEYS[*k]).map(|x| x.0) == Some(u64::MAX) {
                    r.count("ls.put_at_max_version");
                }
            }
            Op::Get(_) | Op::GetVersion(_) | Op::GetPrefix(_) => r.count("ls.rule.read_returns_last_accepted_write.checked"),
            Op::Reopen => {}
        }
        last_refused_batch = matches!(op, Op::Batch(_)) && !ro.ok();

        if stop {
            return;
        }
        match chosen {
            Some(c) => model = c.post,
            None => return,
        }
        mem_obs = mem_post;
        redb_obs = redb_post;
    }
    if h < 1 && shard < 3 {
        r.sample(json!({"part": "lockstep", "shard": shard, "first_operations_[op => memory | redb]": ops.iter().take(16).collect::<Vec<_>>(),
                        "final_contents": map_json(&model)}));
    }
    drop(redb);
    let _ = std::fs::remove_dir_all(&path);
}

// ---------------------------------------------------------------------------------------------
// Part B: the cloud-staged store
// ---------------------------------------------------------------------------------------------

#[derive(Clone, Debug, PartialEq, Eq)]
struct CloudObs {
    /// the transaction's view: get(k) for the four keys
    view: Vec<Option<VV>>,
    view_ver: Vec<Option<u64>>,
    /// the local store: get_prefix("") and get_local(k)
    local: Map,
    local_gets: Vec<Option<VV>>,
}

fn observe_cloud(c: &CloudKVVStore<MemoryKVVStore>, in_tx: bool) -> Result<CloudObs, String> {
    let r = report::catch(|| -> Result<CloudObs, Error> {
        let local: Map = c.get_prefix("")?.map(|kvv| kvv.into_inner()).collect();
        let mut view = vec![];
        let mut view_ver = vec![];
        let mut local_gets = vec![];
        for k in KEYS.iter() {
            if in_tx {
                view.push(c.get(k)?);
                view_ver.push(c.get_version(k)?);
            }
            local_gets.push(c.get_local(k)?);
        }
        Ok(CloudObs { view, view_ver, local, local_gets })
    });
    match r {
        Ok(Ok(o)) => Ok(o),
        Ok(Err(e)) => Err(format!("read failed: {:?}", e)),
        Err(p) => Err(format!("read panicked: {}", p)),
    }
}

fn muts_json(m: &Mutations) -> Value {
    json!(m.iter().map(|(k, (v, val))| json!([k, v, hex::encode(val)])).collect::<Vec<_>>())
}

fn cloud_history(rng: &mut Rng, r: &mut Report, seed: u64, shard: usize, h: u64, txs: u64) {
    let cloud = CloudKVVStore::new(MemoryKVVStore::new([2u8; 16]));
    let vals = values();
    // every call of the history, for replay
    let mut log: Vec<String> = vec![];
    // highest version each key was seen at through get/get_version (transaction view)
    let mut seen_view: Vec<Option<u64>> = vec![None; 4];

    macro_rules! violate {
        ($sig:expr, $extra:expr) => {{
            r.violation(
                $sig,
                json!({"part": "cloud", "seed": seed, "shard": shard, "history": h,
                       "calls_so_far": log, "at": $extra}),
            );
        }};
    }

    for tx in 0..txs {
        let pre = match observe_cloud(&cloud, false) {
            Ok(o) => o,
            Err(e) => {
                r.inconclusive(&format!("cloud: cannot read local store: {}", e));
                return;
            }
        };
        match report::catch(|| cloud.enter()) {
            Ok(Ok(())) => {}
            other => {
                r.inconclusive(&format!("cloud: enter failed: {:?}", other.map(|x| x.map_err(|e| format!("{:?}", e)))));
                return;
            }
        }
        log.push(format!("tx{}: enter", tx));
        r.count("cl.tx");
        let mut cur = match observe_cloud(&cloud, true) {
            Ok(o) => o,
            Err(e) => {
                violate!("cloud:enter:store-unreadable-afterwards", json!({"tx": tx, "error": e}));
                return;
            }
        };
        // the view right after enter against everything seen in earlier transactions
        for i in 0..4 {
            if seen_view[i].is_some() {
                r.count("cl.rule.version_never_decreases.across_tx.checked");
            }
            let now = cur.view[i].as_ref().map(|x| x.0);
            if now < seen_view[i] {
                violate!(
                    "cloud:version-lowered-across-transactions",
                    json!({"tx": tx, "key": KEYS[i], "seen_before": seen_view[i], "now": now})
                );
                seen_view[i] = now;
            }
        }
        r.count("cl.rule.local_unchanged_inside_tx.checked");
        if cur.local != pre.local {
            violate!("cloud:enter:local-store-changed-before-commit", json!({"tx": tx, "before": map_json(&pre.local), "after": map_json(&cur.local)}));
            return;
        }

        let nops = rng.weighted(&[4, 10, 16, 18, 16, 14, 10, 6, 6]) as u64;
        for opi in 0..nops {
            // the generator steers by the transaction's current view
            let view_map: Map = KEYS
                .iter()
                .enumerate()
                .filter_map(|(i, k)| cur.view[i].clone().map(|vv| (k.to_string(), vv)))
                .collect();
            let op = match rng.weighted(&[70, 16, 14]) {
                0 => gen_write(rng, &view_map, r, "cl", 1),
                1 => Op::Get(rng.usize(4)),
                _ => Op::GetVersion(rng.usize(4)),
            };
            r.eval(1);
            let kind = op.kind();
            let out = run_op(&cloud, &op);
            log.push(format!("tx{}: {} => {}", tx, op.show(), out.show()));
            r.count(&format!("cl.{}.{}", kind, if out.ok() { "ok" } else { out.class.as_str() }));
            if out.class == "panic" {
                // the commit-log mutex may be poisoned now; nothing more can be learned from this store
                r.count("cl.panic");
                r.note(&format!("cloud: {} panicked: {}", kind, out.payload));
                return;
            }
            let post = match observe_cloud(&cloud, true) {
                Ok(o) => o,
                Err(e) => {
                    violate!("cloud:store-unreadable-afterwards", json!({"tx": tx, "op": op.show(), "error": e}));
                    return;
                }
            };

            // (1) the local store does not move inside a transaction
            r.count("cl.rule.local_unchanged_inside_tx.checked");
            if post.local != pre.local || post.local_gets != pre.local_gets {
                violate!(
                    "cloud:local-store-changed-before-commit",
                    json!({"tx": tx, "op": op.show(), "result": out.show(), "local_before": map_json(&pre.local), "local_after": map_json(&post.local)})
                );
                return;
            }

            // (2) get and get_version agree; reads return the view and do not move it
            for i in 0..4 {
                if post.view[i].as_ref().map(|x| x.0) != post.view_ver[i] {
                    violate!(
                        "cloud:get-and-get_version-disagree",
                        json!({"tx": tx, "op": op.show(), "key": KEYS[i], "get": show_vv(&post.view[i]), "get_version": show_ver(&post.view_ver[i])})
                    );
                }
            }
            match &op {
                Op::Get(k) => {
                    r.count("cl.rule.read_own_write.get_checked");
                    if out.payload != show_vv(&cur.view[*k]) {
                        violate!("cloud:get:differs-from-previous-get", json!({"tx": tx, "op": op.show(), "returned": out.payload, "previous_get": show_vv(&cur.view[*k])}));
                    }
                }
                Op::GetVersion(k) => {
                    r.count("cl.rule.read_own_write.get_checked");
                    if out.payload != show_ver(&cur.view_ver[*k]) {
                        violate!("cloud:get_version:differs-from-previous-get_version", json!({"tx": tx, "op": op.show(), "returned": out.payload, "previous": show_ver(&cur.view_ver[*k])}));
                    }
                }
                _ => {}
            }

            // (3) a key's version in the view never decreases
            let mut lowered = [false; 4];
            for i in 0..4 {
                let before = cur.view[i].as_ref().map(|x| x.0);
                let after = post.view[i].as_ref().map(|x| x.0);
                if before.is_some() {
                    r.count("cl.rule.version_never_decreases.in_tx.checked");
                }
                if after < before {
                    lowered[i] = true;
                    let local_ver = pre.local.get(KEYS[i]).map(|x| x.0);
                    let relation = if after >= local_ver && after.is_some() {
                        // the new version passes a comparison with the local store but is below what the
                        // transaction itself had staged
                        "cloud:staged-version-lowered-within-transaction:new-version-not-below-local"
                    } else {
                        "cloud:version-lowered-within-transaction:below-local-version"
                    };
                    violate!(
                        relation,
                        json!({"tx": tx, "op_index": opi, "op": op.show(), "result": out.show(), "key": KEYS[i],
                               "view_before": show_vv(&cur.view[i]), "view_after": show_vv(&post.view[i]),
                               "local": show_vv(&pre.local.get(KEYS[i]).cloned())})
                    );
                }
                // what has been seen so far (after a reported lowering, continue from the lowered value)
                if lowered[i] {
                    seen_view[i] = after;
                } else if after > seen_view[i] {
                    seen_view[i] = after;
                }
            }

            // (4) an accepted write is what get returns afterwards
            if op.is_write() {
                match &op {
                    // put / delete: the store picks the version
                    Op::Put(k, _) | Op::Delete(k) => {
                        let val = match &op {
                            Op::Put(_, v) => vals[*v].clone(),
                            _ => vec![],
                        };
                        if out.ok() {
                            r.count("cl.rule.read_own_write.checked");
                            let before = cur.view[*k].as_ref();
                            let after = post.view[*k].as_ref();
                            if after.map(|x| &x.1) != Some(&val) && !lowered[*k] {
                                violate!(
                                    &format!("cloud:{}:own-write-not-read-back", kind),
                                    json!({"tx": tx, "op": op.show(), "key": KEYS[*k], "get_after": show_vv(&post.view[*k])})
                                );
                            }
                            if let (Some(b), Some(a)) = (before, after) {
                                if a.0 == b.0 && a.1 != b.1 {
                                    r.count("cl.observed.same_version_content_replaced_in_tx");
                                }
                            }
                        }
                    }
                    _ => {
                        let entries: Vec<(usize, u64, Vec<u8>)> = match &op {
                            Op::Pwv(k, ver, v) => vec![(*k, *ver, vals[*v].clone())],
                            Op::Batch(es) => es.iter().map(|(k, ver, v)| (*k, *ver, vals[*v].clone())).collect(),
                            _ => vec![],
                        };
                        // per key: what the transaction holds (its view before the request, then the entries
                        // in order), whether some entry was below that, and the request's last entry
                        let mut per_key: BTreeMap<usize, (Option<VV>, bool, bool, VV)> = BTreeMap::new();
                        for (k, ver, val) in entries.into_iter() {
                            let e = per_key.entry(k).or_insert((cur.view[k].clone(), false, false, (0, vec![])));
                            match e.0.clone() {
                                Some((hv, _)) if ver < hv => e.1 = true, // below what the transaction holds
                                Some((hv, hval)) if ver == hv => {
                                    if hval != val {
                                        e.2 = true; // same version, other content (counted, not judged)
                                    }
                                    e.0 = Some((ver, val.clone()));
                                }
                                _ => e.0 = Some((ver, val.clone())),
                            }
                            e.3 = (ver, val);
                        }
                        for (k, (_held, below, same_ver_other, last)) in per_key.iter() {
                            if out.ok() {
                                if *same_ver_other {
                                    r.count("cl.observed.same_version_content_replaced_in_tx");
                                }
                                if !*below {
                                    r.count("cl.rule.read_own_write.checked");
                                    if post.view[*k].as_ref() != Some(last) {
                                        violate!(
                                            &format!("cloud:{}:own-write-not-read-back", kind),
                                            json!({"tx": tx, "op": op.show(), "key": KEYS[*k], "written": show_vv(&Some(last.clone())),
                                                   "view_before": show_vv(&cur.view[*k]), "get_after": show_vv(&post.view[*k])})
                                        );
                                    }
                                } else {
                                    // antecedent of E11: an accepted write below the version the transaction holds
                                    r.count("cl.observed.write_below_held_version.accepted");
                                    if lowered[*k] {
                                        // reported under (3)
                                    } else if post.view[*k].as_ref() == Some(last) {
                                        // lowered only between entries of one batch: no read can see the higher version
                                        r.count("cl.observed.write_below_held_version.accepted.only_inside_one_batch");
                                    } else {
                                        // accepted, but neither applied nor refused
                                        violate!(
                                            "cloud:accepted-write-below-staged-version-not-read-back",
                                            json!({"tx": tx, "op_index": opi, "op": op.show(), "result": out.show(), "key": KEYS[*k],
                                                   "last_write_of_request": show_vv(&Some(last.clone())),
                                                   "view_before": show_vv(&cur.view[*k]), "get_after": show_vv(&post.view[*k]),
                                                   "local": show_vv(&pre.local.get(KEYS[*k]).cloned())})
                                        );
                                    }
                                }
                            } else if *below {
                                r.count("cl.observed.write_below_held_version.refused");
                            }
                        }
                    }
                }
                if !out.ok() && post.view != cur.view {
                    // not judged: the property's all-or-nothing clause is about the memory and disk backends
                    r.count("cl.observed.refused_request_left_entries_staged");
                }
            }
            let moved = (0..4).filter(|i| post.view[*i] != cur.view[*i]).count();
            r.distinct_str(&format!(
                "cl:{}:{}:{}:{}",
                situation(&view_map, &op),
                out.class,
                moved.min(2),
                lowered.iter().any(|x| *x)
            ));
            cur = post;
        }

        // ---- prepare: reports the mutations, touches nothing
        let muts = match report::catch(|| cloud.prepare()) {
            Ok(m) => m,
            Err(p) => {
                r.count("cl.panic");
                r.note(&format!("cloud: prepare panicked: {}", p));
                return;
            }
        };
        log.push(format!("tx{}: prepare => {}", tx, muts_json(&muts)));
        let after_prepare = match observe_cloud(&cloud, false) {
            Ok(o) => o,
            Err(e) => {
                violate!("cloud:prepare:store-unreadable-afterwards", json!({"tx": tx, "error": e}));
                return;
            }
        };
        r.count("cl.rule.local_unchanged_inside_tx.checked");
        if after_prepare.local != pre.local {
            violate!("cloud:prepare:local-store-changed-before-commit", json!({"tx": tx, "before": map_json(&pre.local), "after": map_json(&after_prepare.local)}));
            return;
        }

        // ---- commit: local store becomes exactly before (+) reported mutations
        let cres = report::catch(|| cloud.commit());
        let cout = match &cres {
            Ok(Ok(())) => "ok".to_string(),
            Ok(Err(e)) => ekind(e).to_string(),
            Err(p) => format!("panic:{}", p),
        };
        log.push(format!("tx{}: commit => {}", tx, cout));
        r.count(&format!("cl.commit.{}", if cout.starts_with("panic") { "panic" } else { cout.as_str() }));
        if cout.starts_with("panic") {
            r.note(&format!("cloud: commit panicked: {}", cout));
            return;
        }
        let after_commit = match observe_cloud(&cloud, false) {
            Ok(o) => o,
            Err(e) => {
                violate!("cloud:commit:store-unreadable-afterwards", json!({"tx": tx, "error": e}));
                return;
            }
        };
        let mut expected = pre.local.clone();
        if cout == "ok" {
            for (k, vv) in muts.iter() {
                expected.insert(k.clone(), vv.clone());
            }
        }
        r.count("cl.rule.commit_applies_exactly_reported_mutations.checked");
        if muts.is_empty() {
            r.count("cl.commit.no_mutations_reported");
        } else {
            r.count("cl.commit.mutations_reported");
            r.count_n("cl.commit.mutations_total", muts.len() as u64);
        }
        if after_commit.local != expected {
            let sig = if cout == "ok" {
                "cloud:commit:local-store-differs-from-reported-mutations"
            } else {
                "cloud:commit:refused-but-local-store-changed"
            };
            violate!(
                sig,
                json!({"tx": tx, "commit": cout, "local_before": map_json(&pre.local), "reported_mutations": muts_json(&muts),
                       "expected_local_after": map_json(&expected), "local_after": map_json(&after_commit.local)})
            );
            return;
        }
        // the local store never lowers a version either
        r.count_n("cl.rule.version_never_decreases.local.checked", pre.local.len() as u64);
        if let Some((relation, text)) = transition_fault(&pre.local, &after_commit.local, true) {
            violate!(
                &format!("cloud:commit:local-{}", relation),
                json!({"tx": tx, "what": text, "local_before": map_json(&pre.local), "local_after": map_json(&after_commit.local)})
            );
            return;
        }
        r.distinct_str(&format!("cl:commit:{}:{}", cout, muts.len().min(4)));
    }
    if h < 1 && shard < 3 {
        r.sample(json!({"part": "cloud", "shard": shard, "first_calls": log.iter().take(18).collect::<Vec<_>>()}));
    }
}

// ---------------------------------------------------------------------------------------------

fn main() {
    let cli = Cli::parse("C16");
    report::install_quiet_panic_hook();
    let start = Instant::now();
    let quick = cli.tier.is_quick();
    let shards = if quick { 16 } else { 64 };
    // per shard
    let (ls_h, ls_steps) = if quick { (20, 110) } else { (40, 150) };
    let (cl_h, cl_txs) = if quick { (150, 12) } else { (500, 20) };

    let mut report = run_sharded("C16", cli.threads, shards, |i, r| {
        let mut rng = Rng::new(cli.seed.wrapping_mul(1_000_003).wrapping_add(i as u64));
        // redb fsyncs on commit: prefer a memory-backed directory, fall back to the default temp dir
        let base = tempfile::Builder::new()
            .prefix("c16-")
            .tempdir_in("/dev/shm")
            .or_else(|_| tempfile::Builder::new().prefix("c16-").tempdir());
        let base = match base {
            Ok(b) => b,
            Err(e) => {
                r.inconclusive(&format!("cannot create temp dir: {}", e));
                return;
            }
        };
        let t0 = Instant::now();
        let mut rng_a = rng.fork(1);
        for h in 0..cli.scaled(ls_h) {
            lockstep_history(&mut rng_a, r, base.path(), cli.seed, i, h, ls_steps);
        }
        let t1 = Instant::now();
        let mut rng_b = rng.fork(2);
        for h in 0..cli.scaled(cl_h) {
            cloud_history(&mut rng_b, r, cli.seed, i, h, cl_txs);
        }
        // cost accounting only (never used in a decision)
        r.count_n("time.lockstep_ms_summed_over_shards", (t1 - t0).as_millis() as u64);
        r.count_n("time.cloud_ms_summed_over_shards", t1.elapsed().as_millis() as u64);
    });

    // a run in which a rule's antecedent was (almost) never met decides nothing
    for (k, min) in [
        ("ls.rule.version_never_decreases.checked", 2000),
        ("ls.rule.backends_agree.checked", 2000),
        ("ls.rule.equal_version_other_content.refused", 50),
        ("ls.rule.lower_version.refused", 50),
        ("ls.write.equal_version_same_content", 50),
        ("ls.rule.refused_batch_changes_nothing.checked", 100),
        ("ls.rule.refused_batch_changes_nothing.one_bad_among_good", 30),
        ("ls.rule.batch_applied_entirely.checked", 100),
        ("ls.batch.dup_key", 50),
        ("ls.rule.read_returns_last_accepted_write.checked", 500),
        ("ls.rule.reopen_same_contents.checked", 100),
        ("ls.reopen.right_after_refused_batch", 10),
        ("cl.tx", 500),
        ("cl.commit.mutations_reported", 200),
        ("cl.commit.no_mutations_reported", 10),
        ("cl.rule.read_own_write.checked", 500),
        ("cl.rule.read_own_write.get_checked", 200),
        ("cl.rule.version_never_decreases.in_tx.checked", 1000),
        ("cl.rule.version_never_decreases.across_tx.checked", 500),
        ("cl.rule.local_unchanged_inside_tx.checked", 1000),
        ("cl.rule.commit_applies_exactly_reported_mutations.checked", 500),
    ] {
        report.require(k, min);
    }

    finish(
        report,
        FinishSpec {
            cli: &cli,
            level: "exploration",
            rule: "seeded operation sequences over 4 keys x versions {0..5, current-1/current/current+1.., occasionally 1000, 2^32, u64::MAX-1, u64::MAX} x 3 values (one empty). \
                   Part A: put / put_with_version / put_batch (0-4 entries; all good, exactly one bad entry, one key named twice, arbitrary) / delete / get / get_version / get_prefix(7 prefixes) / reopen(redb) on MemoryKVVStore, RedbKVVStore and a BTreeMap reference in lockstep; after every operation both stores are read in full (get_prefix(\"\"), get and get_version of every key). \
                   Part B: CloudKVVStore<MemoryKVVStore> under enter (put|put_with_version|put_batch|delete|get|get_version)* prepare commit, with the transaction's view of every key and the local store read after every call. \
                   distinct = (part, operation kind, relation of each written version/content to the current one [new/below/equal-same/equal-diff/next/above/far-above], batch size and duplicate-key flag, outcome class on each backend, just-reopened flag | for the cloud: number of keys whose view moved, whether a version was lowered, commit outcome and mutation count)",
            assumptions: vec![
                "clear_database / reset_versions are not in the property's alphabet and are not driven".into(),
                "a batch naming one key twice: the reference accepts either reading (entries judged against the contents before the batch, or one after the other); the two real backends must still agree with each other".into(),
                "the cloud store is driven only in the daemon's protocol order (no calls outside enter..commit, none between prepare and commit)".into(),
                "the property's all-or-nothing and equal-version clauses are stated for the memory and disk backends; for the cloud store partially staged refused batches and same-version rewrites inside a transaction are counted, not judged".into(),
                "reopen = drop the RedbKVVStore and open the same directory again in the same process (no power-cut simulation)".into(),
            ],
            start,
            extra_coverage: Default::default(),
        },
    );
}
