//! C07 — mutual close pays the holder its due to an owned or allowlisted destination.
//!
//! Real `Node`s (memory KVV store) with channels set up in both directions, with and without an
//! upfront shutdown script, StaticRemoteKey and AnchorsZeroFeeHtlc, advanced by REAL commitment
//! updates (holder side: counterparty-signed commitments validated + revoked; counterparty side:
//! commitments signed + revocations with secrets derived here).  Then closing requests through
//! `sign_mutual_close_tx` (tx + opaths) and `sign_mutual_close_tx_phase2`, with the allowlist
//! edited in between.  The oracle is written from the property text and docs/policy-controls.md
//! over a ghost of the history (it never calls the validator).

#![allow(deprecated)]

use lightning_signer::bitcoin;
use lightning_signer::lightning;

use bitcoin::absolute::LockTime;
use bitcoin::bip32::{ChildNumber, DerivationPath, Fingerprint, Xpriv, Xpub};
use bitcoin::psbt::Psbt;
use bitcoin::hashes::Hash;
use bitcoin::key::{CompressedPublicKey, TweakedPublicKey, UntweakedPublicKey};
use bitcoin::secp256k1::ecdsa::Signature;
use bitcoin::secp256k1::{All, Message, PublicKey, Secp256k1, SecretKey};
use bitcoin::sighash::{EcdsaSighashType, SighashCache};
use bitcoin::transaction::Version;
use bitcoin::{
    Address, Amount, BlockHash, Network, OutPoint, PubkeyHash, ScriptBuf, ScriptHash, Sequence, Transaction,
    TxIn, TxOut, Txid, WPubkeyHash, WScriptHash, Witness,
};
use lightning::ln::chan_utils::{
    build_htlc_transaction, derive_private_key, get_htlc_redeemscript, make_funding_redeemscript,
    ChannelPublicKeys, ClosingTransaction, CommitmentTransaction, HTLCOutputInCommitment,
    TxCreationKeys,
};
use lightning::ln::channel_keys::{DelayedPaymentBasepoint, HtlcBasepoint, RevocationBasepoint};
use lightning::sign::ChannelSigner;
use lightning::types::payment::PaymentHash;
use bitcoin::taproot::TapLeafHash;
use lightning_signer::channel::{Channel, ChannelBase, ChannelId, ChannelSetup, CommitmentType};
use lightning_signer::node::Node;
use lightning_signer::tx::tx::HTLCInfo2;
use lightning_signer::util::status::Status;
use lightning_signer::wallet::Wallet;
use serde_json::{json, Value};
use std::collections::BTreeSet;
use std::sync::Arc;
use std::time::Instant;
use vls_protocol::model::{Bip32KeyVersion, PubKey};
use vls_protocol::msgs::{self, Message as WireMessage};
use vls_protocol::psbt::PsbtWrapper;
use vls_protocol::serde_bolt::{ArrayBE, Octets, WithSize};
use vls_protocol_signer::approver::PositiveApprover;
use vls_protocol_signer::handler::{ChannelHandler, Error as HandlerError, Handler, InitHandler, RootHandler};
use vls_verif::oracle::commitment_secret;
use vls_verif::report::{self, finish, run_sharded, FinishSpec};
use vls_verif::world::{World, WorldCfg};
use vls_verif::{Cli, Report, Rng};

const INITIAL_COMMITMENT_NUMBER: u64 = (1 << 48) - 1;
const NET: Network = Network::Regtest;
const DUST: u64 = 354;

// ---------------------------------------------------------------------------------------------
// small helpers

fn rand_sk(rng: &mut Rng) -> SecretKey {
    loop {
        if let Ok(k) = SecretKey::from_slice(&rng.bytes::<32>()) {
            return k;
        }
    }
}

fn path1(i: u32) -> DerivationPath {
    DerivationPath::from(vec![ChildNumber::from_normal_idx(i).unwrap()])
}

fn path_json(p: &DerivationPath) -> Value {
    json!(p.into_iter().map(|c| u32::from(*c)).collect::<Vec<u32>>())
}

fn script_hex(s: &Option<ScriptBuf>) -> Value {
    match s {
        Some(s) => json!(s.to_hex_string()),
        None => Value::Null,
    }
}

fn short_err(e: &Status) -> String {
    // normalise: drop digits and hex so that the set of refusal reasons stays small
    let mut out = String::new();
    let mut last_hash = false;
    for c in e.message().chars() {
        if c.is_ascii_digit() {
            if !last_hash {
                out.push('#');
            }
            last_hash = true;
        } else {
            out.push(c);
            last_hash = false;
        }
        if out.len() >= 96 {
            break;
        }
    }
    out
}

/// The counterparty: keys held by the harness
#[derive(Clone)]
struct CpKeys {
    funding: SecretKey,
    revocation: SecretKey,
    payment: SecretKey,
    delayed: SecretKey,
    htlc: SecretKey,
    seed: [u8; 32],
}

impl CpKeys {
    fn new(rng: &mut Rng) -> CpKeys {
        CpKeys {
            funding: rand_sk(rng),
            revocation: rand_sk(rng),
            payment: rand_sk(rng),
            delayed: rand_sk(rng),
            htlc: rand_sk(rng),
            seed: rng.bytes::<32>(),
        }
    }
    fn points(&self, secp: &Secp256k1<All>) -> ChannelPublicKeys {
        let pk = |k: &SecretKey| PublicKey::from_secret_key(secp, k);
        ChannelPublicKeys {
            funding_pubkey: pk(&self.funding),
            revocation_basepoint: RevocationBasepoint(pk(&self.revocation)),
            payment_point: pk(&self.payment),
            delayed_payment_basepoint: DelayedPaymentBasepoint(pk(&self.delayed)),
            htlc_basepoint: HtlcBasepoint(pk(&self.htlc)),
        }
    }
    fn secret(&self, n: u64) -> SecretKey {
        SecretKey::from_slice(&commitment_secret(&self.seed, n)).expect("commitment secret")
    }
    fn point(&self, n: u64, secp: &Secp256k1<All>) -> PublicKey {
        PublicKey::from_secret_key(secp, &self.secret(n))
    }
}

/// Contents of one commitment, from the holder's point of view
#[derive(Clone, Debug)]
struct Content {
    to_holder: u64,
    to_cp: u64,
    /// offered by the holder (outgoing)
    out_htlcs: Vec<HTLCInfo2>,
    /// received by the holder (incoming)
    in_htlcs: Vec<HTLCInfo2>,
    feerate: u32,
}

impl Content {
    fn has_htlcs(&self) -> bool {
        !self.out_htlcs.is_empty() || !self.in_htlcs.is_empty()
    }
    fn json(&self) -> Value {
        let h = |v: &Vec<HTLCInfo2>| {
            v.iter()
                .map(|h| json!([h.value_sat, hex::encode(h.payment_hash.0), h.cltv_expiry]))
                .collect::<Vec<_>>()
        };
        json!({"to_holder": self.to_holder, "to_cp": self.to_cp, "out_htlcs": h(&self.out_htlcs),
               "in_htlcs": h(&self.in_htlcs), "feerate": self.feerate})
    }
}

/// Ghost of the node-level configuration and allowlist
struct WorldGhost {
    account_xpub: Xpub,
    eps: u64,
    min_rate: u64,
    max_rate: u64,
    /// pool of external destinations: (script, address string)
    ext: Vec<(ScriptBuf, String)>,
    /// pool of external xpubs
    xpubs: Vec<Xpub>,
    payees: Vec<String>,
    /// ghost allowlist: "s:<script hex>" | "x:<xpub>" | "p:<payee>"
    allow: BTreeSet<String>,
    ops: Vec<Value>,
}

impl WorldGhost {
    fn script_allowed_directly(&self, s: &ScriptBuf) -> bool {
        self.allow.contains(&format!("s:{}", s.to_hex_string()))
    }
    fn allowed_ext(&self) -> Vec<usize> {
        (0..self.ext.len()).filter(|i| self.script_allowed_directly(&self.ext[*i].0)).collect()
    }
    fn allowed_xpubs(&self) -> Vec<usize> {
        (0..self.xpubs.len()).filter(|i| self.allow.contains(&format!("x:{}", self.xpubs[*i]))).collect()
    }
    fn log(&mut self, v: Value) {
        if self.ops.len() < 400 {
            self.ops.push(v);
        }
    }
}

/// scripts derivable from `xpub` at `path` (None when not derivable)
fn child_scripts(secp: &Secp256k1<All>, xpub: &Xpub, path: &DerivationPath) -> Option<[ScriptBuf; 4]> {
    if path.is_empty() || path.into_iter().any(|c| c.is_hardened()) {
        return None;
    }
    let pk = xpub.derive_pub(secp, path).ok()?.public_key;
    let cpk = CompressedPublicKey(pk);
    let p2wpkh = Address::p2wpkh(&cpk, NET).script_pubkey();
    let p2sh = Address::p2shwpkh(&cpk, NET).script_pubkey();
    let p2tr = Address::p2tr(secp, UntweakedPublicKey::from(pk), None, NET).script_pubkey();
    let p2pkh = Address::p2pkh(cpk, NET).script_pubkey();
    Some([p2wpkh, p2sh, p2tr, p2pkh])
}

/// Reference predicate: the script is derivable from the layer-1 wallet at `path`
fn wallet_derivable(secp: &Secp256k1<All>, wg: &WorldGhost, path: &DerivationPath, s: &ScriptBuf) -> bool {
    match child_scripts(secp, &wg.account_xpub, path) {
        Some(cs) => cs[0] == *s || cs[1] == *s || cs[2] == *s,
        None => false,
    }
}

/// Reference predicate: the script is allowlisted NOW (directly, or as a child of an allowlisted xpub)
fn allowlisted(secp: &Secp256k1<All>, wg: &WorldGhost, path: &DerivationPath, s: &ScriptBuf) -> bool {
    if wg.script_allowed_directly(s) {
        return true;
    }
    for i in wg.allowed_xpubs() {
        if let Some(cs) = child_scripts(secp, &wg.xpubs[i], path) {
            // lenient: any standard single-key form of the child
            if cs.iter().any(|c| c == s) {
                return true;
            }
        }
    }
    false
}

/// Hand-built BOLT-3 closing transaction: version 2, locktime 0, one input spending the funding
/// outpoint with sequence 0xffffffff, non-zero outputs in BIP69 order.
fn canonical_closing_tx(funding: OutPoint, outs: &[(u64, ScriptBuf)]) -> Transaction {
    let mut o: Vec<(u64, ScriptBuf)> = outs.iter().filter(|(v, _)| *v > 0).cloned().collect();
    o.sort_by(|a, b| a.0.cmp(&b.0).then_with(|| a.1.as_bytes().cmp(b.1.as_bytes())));
    Transaction {
        version: Version::TWO,
        lock_time: LockTime::ZERO,
        input: vec![TxIn {
            previous_output: funding,
            script_sig: ScriptBuf::new(),
            sequence: Sequence::MAX,
            witness: Witness::new(),
        }],
        output: o
            .into_iter()
            .map(|(v, s)| TxOut { value: Amount::from_sat(v), script_pubkey: s })
            .collect(),
    }
}

/// closing weight bounds (signatures of 70..73 bytes incl. sighash byte, 71-byte 2-of-2 script)
fn closing_weight_bounds(tx: &Transaction) -> (u64, u64) {
    let base = tx.weight().to_wu();
    (base + 2 + 1 + 4 + 70 + 70 + 71, base + 2 + 1 + 4 + 73 + 73 + 71)
}

// ---------------------------------------------------------------------------------------------
// channel ghost and real updates

struct ChanGhost {
    id: ChannelId,
    /// what the node (and so a protocol handler's client) knows the channel by
    peer_id: [u8; 33],
    dbid: u64,
    /// protocol handlers of this channel (one per protocol version) on the CURRENT node object
    handlers: Vec<(u32, ChannelHandler)>,
    setup: ChannelSetup,
    holder_funding: PublicKey,
    cp: CpKeys,
    upfront_path: DerivationPath,
    upfront_kind: &'static str,
    next_holder: u64,
    holder_cur: Option<Content>,
    holder_pending: Option<Content>,
    next_cp: u64,
    next_cp_revoke: u64,
    cp_cur: Option<Content>,
    /// logical balance of the side that does not fund the channel
    base_nf: u64,
    closed: bool,
    first_ok_checked: bool,
    hist: Vec<Value>,
    state_class: &'static str,
}

impl ChanGhost {
    fn log(&mut self, v: Value) {
        if self.hist.len() < 160 {
            self.hist.push(v);
        }
    }
    fn nf_of(&self, c: &Content) -> u64 {
        if self.setup.is_outbound {
            c.to_cp
        } else {
            c.to_holder
        }
    }
    fn any_htlc(&self) -> bool {
        self.holder_cur.as_ref().map(|c| c.has_htlcs()).unwrap_or(false)
            || self.cp_cur.as_ref().map(|c| c.has_htlcs()).unwrap_or(false)
    }
    fn setup_json(&self) -> Value {
        json!({
            "is_outbound": self.setup.is_outbound,
            "channel_value_sat": self.setup.channel_value_sat,
            "push_value_msat": self.setup.push_value_msat,
            "funding_outpoint": self.setup.funding_outpoint.to_string(),
            "commitment_type": format!("{:?}", self.setup.commitment_type),
            "holder_shutdown_script": script_hex(&self.setup.holder_shutdown_script),
            "upfront_kind": self.upfront_kind,
            "upfront_path": path_json(&self.upfront_path),
            "holder_funding_pubkey": self.holder_funding.to_string(),
            "counterparty_funding_pubkey": self.setup.counterparty_points.funding_pubkey.to_string(),
            "channel_id0": hex::encode(self.id.as_slice()),
        })
    }
}

/// Produce the counterparty's signatures on holder commitment `n` with content `c`
fn cp_sign_holder(
    chan: &Channel,
    cp: &CpKeys,
    secp: &Secp256k1<All>,
    n: u64,
    c: &Content,
) -> Result<(Signature, Vec<Signature>), Status> {
    let pcp = chan.get_per_commitment_point(n)?;
    let holder_pts = chan.keys.pubkeys().clone();
    let cp_pts = chan.setup.counterparty_points.clone();
    let txkeys = TxCreationKeys::derive_new(
        secp,
        &pcp,
        &holder_pts.delayed_payment_basepoint,
        &holder_pts.htlc_basepoint,
        &cp_pts.revocation_basepoint,
        &cp_pts.htlc_basepoint,
    );
    let params = chan.make_channel_parameters();
    let directed = params.as_holder_broadcastable();
    let mut htlcs_aux: Vec<(HTLCOutputInCommitment, ())> =
        Channel::htlcs_info2_to_oic(&c.out_htlcs, &c.in_htlcs).into_iter().map(|h| (h, ())).collect();
    let mut ctx = CommitmentTransaction::new_with_auxiliary_htlc_data(
        INITIAL_COMMITMENT_NUMBER - n,
        c.to_holder,
        c.to_cp,
        holder_pts.funding_pubkey,
        cp_pts.funding_pubkey,
        txkeys.clone(),
        c.feerate,
        &mut htlcs_aux,
        &directed,
    );
    if chan.setup.is_anchors() {
        ctx = ctx.with_non_zero_fee_anchors();
    }
    let redeem = make_funding_redeemscript(&holder_pts.funding_pubkey, &cp_pts.funding_pubkey);
    let trusted = ctx.trust();
    let built = trusted.built_transaction();
    let sig = built.sign_counterparty_commitment(&cp.funding, &redeem, chan.setup.channel_value_sat, secp);
    let htlc_key = derive_private_key(secp, &pcp, &cp.htlc);
    let features = chan.setup.features();
    let build_feerate = if chan.setup.is_zero_fee_htlc() { 0 } else { c.feerate };
    let sht = if chan.setup.is_anchors() {
        EcdsaSighashType::SinglePlusAnyoneCanPay
    } else {
        EcdsaSighashType::All
    };
    let mut hsigs = vec![];
    for htlc in ctx.htlcs() {
        let htx = build_htlc_transaction(
            &built.txid,
            build_feerate,
            chan.setup.counterparty_selected_contest_delay,
            htlc,
            &features,
            &txkeys.broadcaster_delayed_payment_key,
            &txkeys.revocation_key,
        );
        let rs = get_htlc_redeemscript(htlc, &features, &txkeys);
        let sh = SighashCache::new(&htx)
            .p2wsh_signature_hash(0, &rs, Amount::from_sat(htlc.amount_msat / 1000), sht)
            .expect("sighash");
        hsigs.push(secp.sign_ecdsa(&Message::from_digest(sh.to_byte_array()), &htlc_key));
    }
    Ok((sig, hsigs))
}

#[allow(dead_code)]
enum Outcome {
    Ok,
    Refused(String),
    Panic(String),
}

fn run_chan<T>(world: &World, id: &ChannelId, f: impl FnOnce(&mut Channel) -> Result<T, Status>) -> Result<T, Outcome> {
    match report::catch(|| world.node.with_channel(id, f)) {
        Ok(Ok(v)) => Ok(v),
        Ok(Err(e)) => Err(Outcome::Refused(short_err(&e))),
        Err(p) => Err(Outcome::Panic(p)),
    }
}

/// after a panic inside the signer the channel mutex is poisoned: the request stays open until restart
fn recover(world: &mut World, r: &mut Report) -> bool {
    match world.restart() {
        Ok(()) => {
            r.count("restart.after_panic");
            true
        }
        Err(e) => {
            r.inconclusive(&format!("restart after panic failed: {}", e));
            false
        }
    }
}

/// Validate holder commitment `next_holder` with `content`; if `finish`, make it current.
/// Returns false if the world became unusable.
fn holder_update(
    world: &mut World,
    ch: &mut ChanGhost,
    secp: &Secp256k1<All>,
    content: Content,
    finish_it: bool,
    r: &mut Report,
) -> bool {
    let n = ch.next_holder;
    let payee = PublicKey::from_secret_key(secp, &SecretKey::from_slice(&[9u8; 32]).unwrap());
    for h in &content.out_htlcs {
        let _ = report::catch(|| world.node.add_keysend(payee, h.payment_hash, h.value_sat * 1000));
    }
    let cp = ch.cp.clone();
    let c2 = content.clone();
    let res = run_chan(world, &ch.id, |chan| {
        let (sig, hsigs) = cp_sign_holder(chan, &cp, secp, n, &c2)?;
        chan.validate_holder_commitment_tx_phase2(
            n,
            c2.feerate,
            c2.to_holder,
            c2.to_cp,
            c2.out_htlcs.clone(),
            c2.in_htlcs.clone(),
            &sig,
            &hsigs,
        )
    });
    match res {
        Ok(()) => {
            r.count("update.holder.validated");
            ch.log(json!({"op": "validate_holder_commitment_tx_phase2", "n": n, "content": content.json(), "res": "ok"}));
            ch.holder_pending = Some(content);
        }
        Err(Outcome::Refused(e)) => {
            r.count("update.holder.refused");
            r.set_add("update_refusals", &format!("holder: {}", e));
            ch.log(json!({"op": "validate_holder_commitment_tx_phase2", "n": n, "content": content.json(), "res": e}));
            return true;
        }
        Err(Outcome::Panic(p)) => {
            r.count("update.holder.panic");
            r.note(&format!("validate_holder_commitment_tx_phase2 panicked: {}", p));
            return recover(world, r);
        }
        Err(Outcome::Ok) => unreachable!(),
    }
    if finish_it {
        let res = run_chan(world, &ch.id, |chan| {
            if n == 0 {
                chan.activate_initial_commitment().map(|_| ())
            } else {
                chan.revoke_previous_holder_commitment(n).map(|_| ())
            }
        });
        match res {
            Ok(()) => {
                r.count("update.holder.became_current");
                ch.log(json!({"op": if n == 0 {"activate_initial_commitment"} else {"revoke_previous_holder_commitment"}, "n": n, "res": "ok"}));
                ch.holder_cur = ch.holder_pending.take();
                ch.next_holder = n + 1;
            }
            Err(Outcome::Refused(e)) => {
                r.count("update.holder.revoke_refused");
                r.set_add("update_refusals", &format!("revoke: {}", e));
                ch.log(json!({"op": "revoke/activate", "n": n, "res": e}));
            }
            Err(Outcome::Panic(p)) => {
                r.note(&format!("revoke/activate panicked: {}", p));
                return recover(world, r);
            }
            Err(Outcome::Ok) => unreachable!(),
        }
    }
    true
}

/// Get counterparty commitment `next_cp` signed (revoking its pre-predecessor first when needed)
fn cp_update(world: &mut World, ch: &mut ChanGhost, secp: &Secp256k1<All>, content: Content, r: &mut Report) -> bool {
    let n = ch.next_cp;
    let payee = PublicKey::from_secret_key(secp, &SecretKey::from_slice(&[9u8; 32]).unwrap());
    for h in &content.out_htlcs {
        let _ = report::catch(|| world.node.add_keysend(payee, h.payment_hash, h.value_sat * 1000));
    }
    if n >= 2 && ch.next_cp_revoke < n - 1 {
        let rn = n - 2;
        let s = ch.cp.secret(rn);
        match run_chan(world, &ch.id, |chan| chan.validate_counterparty_revocation(rn, &s)) {
            Ok(()) => {
                r.count("update.cp.revocation_accepted");
                ch.log(json!({"op": "validate_counterparty_revocation", "n": rn, "res": "ok"}));
                ch.next_cp_revoke = rn + 1;
            }
            Err(Outcome::Refused(e)) => {
                r.count("update.cp.revocation_refused");
                r.set_add("update_refusals", &format!("cp revocation: {}", e));
                return true;
            }
            Err(Outcome::Panic(p)) => {
                r.note(&format!("validate_counterparty_revocation panicked: {}", p));
                return recover(world, r);
            }
            Err(Outcome::Ok) => unreachable!(),
        }
    }
    let point = ch.cp.point(n, secp);
    let c2 = content.clone();
    let res = run_chan(world, &ch.id, |chan| {
        chan.sign_counterparty_commitment_tx_phase2(
            &point,
            n,
            c2.feerate,
            c2.to_holder,
            c2.to_cp,
            c2.in_htlcs.clone(),  // offered by the counterparty = received by the holder
            c2.out_htlcs.clone(), // received by the counterparty = offered by the holder
        )
        .map(|_| ())
    });
    match res {
        Ok(()) => {
            r.count("update.cp.signed");
            ch.log(json!({"op": "sign_counterparty_commitment_tx_phase2", "n": n, "content": content.json(), "res": "ok"}));
            ch.cp_cur = Some(content);
            ch.next_cp = n + 1;
            true
        }
        Err(Outcome::Refused(e)) => {
            r.count("update.cp.refused");
            r.set_add("update_refusals", &format!("cp: {}", e));
            ch.log(json!({"op": "sign_counterparty_commitment_tx_phase2", "n": n, "content": content.json(), "res": e}));
            true
        }
        Err(Outcome::Panic(p)) => {
            r.count("update.cp.panic");
            r.note(&format!("sign_counterparty_commitment_tx_phase2 panicked: {}", p));
            recover(world, r)
        }
        Err(Outcome::Ok) => unreachable!(),
    }
}

/// Commitment content with the non-funder's balance `nf` and the given HTLCs
fn mk_content(rng: &mut Rng, ch: &ChanGhost, wg: &WorldGhost, nf: u64, out_htlcs: Vec<HTLCInfo2>, in_htlcs: Vec<HTLCInfo2>) -> Option<Content> {
    let c = ch.setup.channel_value_sat;
    let nh = (out_htlcs.len() + in_htlcs.len()) as u64;
    let w = if ch.setup.is_anchors() { 1124 } else { 724 } + 172 * nh;
    let hi = (wg.max_rate.saturating_sub(20)).min(wg.min_rate * 4).max(wg.min_rate + 21);
    let rate = rng.range(wg.min_rate + 20, hi);
    let fee = rate * w / 1000 + 1;
    let hs: u64 = out_htlcs.iter().chain(in_htlcs.iter()).map(|h| h.value_sat).sum();
    let funder = c.checked_sub(nf)?.checked_sub(hs)?.checked_sub(fee)?;
    if funder < 1000 {
        return None;
    }
    let (to_holder, to_cp) = if ch.setup.is_outbound { (funder, nf) } else { (nf, funder) };
    Some(Content { to_holder, to_cp, out_htlcs, in_htlcs, feerate: rng.range(253, 2000) as u32 })
}

fn mk_htlc(rng: &mut Rng) -> HTLCInfo2 {
    HTLCInfo2 {
        value_sat: rng.range(5_000, 40_000),
        payment_hash: PaymentHash(rng.bytes::<32>()),
        cltv_expiry: rng.range(100, 2000) as u32,
    }
}

fn nf_with_skew(base: u64, skew: i64) -> u64 {
    let v = if skew >= 0 { base.saturating_add(skew as u64) } else { base.saturating_sub((-skew) as u64) };
    if v > 0 && v < DUST {
        if base == 0 && skew == 0 {
            0
        } else {
            DUST
        }
    } else {
        v
    }
}

// ---------------------------------------------------------------------------------------------
// world: policy configuration, destination pools, allowlist edits

fn rand_ext_script(rng: &mut Rng, secp: &Secp256k1<All>) -> ScriptBuf {
    match rng.below(5) {
        0 => ScriptBuf::new_p2wpkh(&WPubkeyHash::from_byte_array(rng.bytes::<20>())),
        1 => ScriptBuf::new_p2wsh(&WScriptHash::from_byte_array(rng.bytes::<32>())),
        2 => ScriptBuf::new_p2pkh(&PubkeyHash::from_byte_array(rng.bytes::<20>())),
        3 => ScriptBuf::new_p2sh(&ScriptHash::from_byte_array(rng.bytes::<20>())),
        _ => {
            let pk = PublicKey::from_secret_key(secp, &rand_sk(rng));
            let (x, _) = pk.x_only_public_key();
            ScriptBuf::new_p2tr_tweaked(TweakedPublicKey::dangerous_assume_tweaked(x))
        }
    }
}

fn make_world(rng: &mut Rng, secp: &Secp256k1<All>, big: bool) -> (World, WorldGhost) {
    let mut cfg = WorldCfg::regtest(rng.bytes::<32>());
    let eps = *rng.pick(&[0u64, 1, 500, 10_000, 10_000, 10_000, 40_000]);
    let (min_rate, max_rate) = *rng.pick(&[(253u32, 333_333u32), (253, 333_333), (253, 25_000), (1000, 5000), (500, 100_000)]);
    cfg.policy.epsilon_sat = eps;
    cfg.policy.min_feerate_per_kw = min_rate;
    cfg.policy.max_feerate_per_kw = max_rate;
    if big {
        // an operator who allows very large channels
        cfg.policy.max_channel_size_sat = 21_000_000 * 100_000_000;
    }
    let world = World::new(cfg);
    let account_xpub = world.node.get_account_extended_pubkey();
    let mut ext = vec![];
    for _ in 0..6 {
        let s = rand_ext_script(rng, secp);
        let a = Address::from_script(&s, NET).expect("address").to_string();
        ext.push((s, a));
    }
    let mut xpubs = vec![];
    for _ in 0..2 {
        let xp = Xpriv::new_master(NET, &rng.bytes::<32>()).expect("xpriv");
        xpubs.push(Xpub::from_priv(secp, &xp));
    }
    let payees =
        (0..2).map(|_| PublicKey::from_secret_key(secp, &rand_sk(rng)).to_string()).collect();
    let wg = WorldGhost {
        account_xpub,
        eps,
        min_rate: min_rate as u64,
        max_rate: max_rate as u64,
        ext,
        xpubs,
        payees,
        allow: BTreeSet::new(),
        ops: vec![],
    };
    (world, wg)
}

#[derive(Clone, Debug)]
enum Entry {
    Ext(usize, bool), // index, with "address:" prefix
    Xpub(usize),
    Payee(usize),
}

fn entry_str(wg: &WorldGhost, e: &Entry) -> String {
    match e {
        Entry::Ext(i, true) => format!("address:{}", wg.ext[*i].1),
        Entry::Ext(i, false) => wg.ext[*i].1.clone(),
        Entry::Xpub(i) => format!("xpub:{}", wg.xpubs[*i]),
        Entry::Payee(i) => format!("payee:{}", wg.payees[*i]),
    }
}

fn entry_key(wg: &WorldGhost, e: &Entry) -> String {
    match e {
        Entry::Ext(i, _) => format!("s:{}", wg.ext[*i].0.to_hex_string()),
        Entry::Xpub(i) => format!("x:{}", wg.xpubs[*i]),
        Entry::Payee(i) => format!("p:{}", wg.payees[*i]),
    }
}

/// kind: 0 add, 1 remove, 2 set.  The ghost is updated only when the node acknowledged.
fn allowlist_op(world: &World, wg: &mut WorldGhost, kind: u8, entries: &[Entry], r: &mut Report) {
    let strs: Vec<String> = entries.iter().map(|e| entry_str(wg, e)).collect();
    let res = report::catch(|| match kind {
        0 => world.node.add_allowlist(&strs),
        1 => world.node.remove_allowlist(&strs),
        _ => world.node.set_allowlist(&strs),
    });
    let name = ["add_allowlist", "remove_allowlist", "set_allowlist"][kind as usize];
    match res {
        Ok(Ok(())) => {
            r.count(&format!("allowlist.{}", name));
            match kind {
                0 => {
                    for e in entries {
                        let k = entry_key(wg, e);
                        wg.allow.insert(k);
                    }
                }
                1 => {
                    for e in entries {
                        let k = entry_key(wg, e);
                        wg.allow.remove(&k);
                    }
                }
                _ => {
                    wg.allow.clear();
                    for e in entries {
                        let k = entry_key(wg, e);
                        wg.allow.insert(k);
                    }
                }
            }
            wg.log(json!({"op": name, "entries": strs, "res": "ok"}));
        }
        Ok(Err(e)) => {
            // only well-formed entries are sent, so this is a harness problem
            r.inconclusive(&format!("{} refused well-formed entries: {}", name, e.message()));
        }
        Err(p) => r.inconclusive(&format!("{} panicked: {}", name, p)),
    }
}

fn random_allowlist_op(world: &World, wg: &mut WorldGhost, rng: &mut Rng, r: &mut Report) {
    let pick_entry = |rng: &mut Rng| match rng.below(10) {
        0 => Entry::Payee(rng.usize(2)),
        1 | 2 => Entry::Xpub(rng.usize(2)),
        _ => Entry::Ext(rng.usize(6), rng.bool()),
    };
    match rng.below(10) {
        0..=4 => {
            let n = rng.range(1, 2);
            let es: Vec<Entry> = (0..n).map(|_| pick_entry(rng)).collect();
            allowlist_op(world, wg, 0, &es, r);
        }
        5..=7 => {
            let es = vec![pick_entry(rng)];
            allowlist_op(world, wg, 1, &es, r);
        }
        _ => {
            let n = rng.range(0, 4);
            let es: Vec<Entry> = (0..n).map(|_| pick_entry(rng)).collect();
            allowlist_op(world, wg, 2, &es, r);
        }
    }
}

fn open_channel(
    world: &World,
    wg: &mut WorldGhost,
    rng: &mut Rng,
    secp: &Secp256k1<All>,
    dbid: u64,
    big: bool,
    r: &mut Report,
) -> Option<ChanGhost> {
    let peer = PublicKey::from_secret_key(secp, &rand_sk(rng)).serialize();
    let node = world.node.clone();
    let id = match report::catch(|| node.new_channel(dbid, &peer, &node)) {
        Ok(Ok((id, _))) => id,
        Ok(Err(e)) => {
            r.inconclusive(&format!("new_channel failed: {}", e.message()));
            return None;
        }
        Err(p) => {
            r.inconclusive(&format!("new_channel panicked: {}", p));
            return None;
        }
    };
    let base = node.with_channel_base(&id, |b| Ok(b.get_channel_basepoints())).ok()?;
    let cp = CpKeys::new(rng);
    let eps = wg.eps;
    let is_outbound = rng.bool();
    let channel_value_sat = if big {
        rng.range(3_000_000_000, 6_000_000_000)
    } else {
        let opts: Vec<u64> = [300_000u64, 1_000_000, 3_000_000, 16_000_000, 500_000_000]
            .iter()
            .copied()
            .filter(|c| *c >= 40 * eps + 200_000)
            .collect();
        *rng.pick(&opts)
    };
    // non-funder balance
    let base_nf = match rng.below(7) {
        0 => 0,
        _ => rng.range((4 * eps).max(20_000), channel_value_sat / 3),
    };
    // upfront shutdown script
    let (upfront, upfront_path, upfront_kind): (Option<ScriptBuf>, DerivationPath, &'static str) =
        match rng.weighted(&[48, 16, 8, 8, 12, 8]) {
            0 => (None, DerivationPath::master(), "none"),
            1 => {
                let p = path1(rng.below(50) as u32);
                (Some(node.get_native_address(&p).ok()?.script_pubkey()), p, "wallet-p2wpkh")
            }
            2 => {
                let p = path1(rng.below(50) as u32);
                (Some(node.get_wrapped_address(&p).ok()?.script_pubkey()), p, "wallet-p2sh-p2wpkh")
            }
            3 => {
                let p = path1(rng.below(50) as u32);
                (Some(node.get_taproot_address(&p).ok()?.script_pubkey()), p, "wallet-p2tr")
            }
            4 => {
                let i = rng.usize(6);
                allowlist_op(world, wg, 0, &[Entry::Ext(i, rng.bool())], r);
                (Some(wg.ext[i].0.clone()), DerivationPath::master(), "allowlisted")
            }
            _ => {
                let i = rng.usize(2);
                allowlist_op(world, wg, 0, &[Entry::Xpub(i)], r);
                let p = path1(rng.below(50) as u32);
                let cs = child_scripts(secp, &wg.xpubs[i], &p)?;
                (Some(cs[if rng.bool() { 0 } else { 2 }].clone()), p, "xpub-child")
            }
        };
    let push_value_msat = if is_outbound { (base_nf + 4 * eps + 1000) * 1000 } else { base_nf * 1000 };
    let setup = ChannelSetup {
        is_outbound,
        channel_value_sat,
        push_value_msat,
        funding_outpoint: OutPoint { txid: Txid::from_byte_array(rng.bytes::<32>()), vout: rng.below(3) as u32 },
        holder_selected_contest_delay: rng.range(6, 144) as u16,
        holder_shutdown_script: upfront,
        counterparty_points: cp.points(secp),
        counterparty_selected_contest_delay: rng.range(6, 144) as u16,
        counterparty_shutdown_script: None,
        commitment_type: if rng.bool() { CommitmentType::StaticRemoteKey } else { CommitmentType::AnchorsZeroFeeHtlc },
    };
    let s2 = setup.clone();
    let up2 = upfront_path.clone();
    let id2 = id.clone();
    match report::catch(|| node.setup_channel(id2, None, s2, &up2)) {
        Ok(Ok(_)) => r.count("setup.ok"),
        Ok(Err(e)) => {
            r.count("setup.refused");
            r.set_add("setup_refusals", &short_err(&e));
            return None;
        }
        Err(p) => {
            r.inconclusive(&format!("setup_channel panicked: {}", p));
            return None;
        }
    }
    r.count(&format!("setup.upfront.{}", upfront_kind));
    r.count(if is_outbound { "setup.outbound" } else { "setup.inbound" });
    Some(ChanGhost {
        id,
        peer_id: peer,
        dbid,
        handlers: vec![],
        setup,
        holder_funding: base.funding_pubkey,
        cp,
        upfront_path,
        upfront_kind,
        next_holder: 0,
        holder_cur: None,
        holder_pending: None,
        next_cp: 0,
        next_cp_revoke: 0,
        cp_cur: None,
        base_nf,
        closed: false,
        first_ok_checked: false,
        hist: vec![],
        state_class: "fresh",
    })
}

/// Drive the channel by real updates into one of the interesting pairs of current commitments
fn advance_channel(world: &mut World, ch: &mut ChanGhost, wg: &WorldGhost, rng: &mut Rng, secp: &Secp256k1<All>, r: &mut Report) -> bool {
    let eps = wg.eps as i64;
    // initial commitments on both sides, either order
    let order = rng.bool();
    for k in 0..2 {
        let nf = nf_with_skew(ch.base_nf, 0);
        let c = match mk_content(rng, ch, wg, nf, vec![], vec![]) {
            Some(c) => c,
            None => return true,
        };
        let ok = if (k == 0) == order { holder_update(world, ch, secp, c, true, r) } else { cp_update(world, ch, secp, c, r) };
        if !ok {
            return false;
        }
    }
    // intermediate history
    let k = rng.below(4);
    for _ in 0..k {
        if rng.chance(1, 3) && ch.base_nf > 0 {
            // a payment moved the logical balance
            let d = rng.range(1, 30_000) as i64;
            ch.base_nf = nf_with_skew(ch.base_nf, if rng.bool() { d } else { -d }).min(ch.setup.channel_value_sat / 2);
        }
        let skew = *rng.pick(&[0i64, 0, 1, -1, eps, -eps, eps + 1, 3 * eps + 5]);
        let nf = nf_with_skew(ch.base_nf, skew);
        let (o, i) = match rng.below(5) {
            0 => (vec![mk_htlc(rng)], vec![]),
            1 => (vec![], vec![mk_htlc(rng)]),
            2 => (vec![], vec![mk_htlc(rng), mk_htlc(rng)]),
            _ => (vec![], vec![]),
        };
        if let Some(c) = mk_content(rng, ch, wg, nf, o, i) {
            let ok = if rng.bool() { holder_update(world, ch, secp, c, true, r) } else { cp_update(world, ch, secp, c, r) };
            if !ok {
                return false;
            }
        }
    }
    // final pair
    let class = rng.weighted(&[26, 22, 10, 9, 8, 8, 5, 6, 6]);
    let (name, sh, sc, hh, hc, pending_htlc): (&'static str, i64, i64, bool, bool, bool) = match class {
        0 => ("equal", 0, 0, false, false, false),
        1 => {
            let d = if eps > 0 { rng.range(1, eps as u64) as i64 } else { 0 };
            if rng.bool() { ("within-eps", 0, d, false, false, false) } else { ("within-eps", d, 0, false, false, false) }
        }
        2 => {
            let d = eps + 1 + rng.below((eps as u64).max(1)) as i64;
            if rng.bool() { ("apart-le-2eps", 0, d, false, false, false) } else { ("apart-le-2eps", d, 0, false, false, false) }
        }
        3 => {
            let d = 2 * eps + 1 + rng.below(5000) as i64;
            if rng.bool() { ("apart-gt-2eps", 0, d, false, false, false) } else { ("apart-gt-2eps", d, 0, false, false, false) }
        }
        4 => ("htlc-in-holder-commitment", 0, 0, true, false, false),
        5 => ("htlc-in-counterparty-commitment", 0, 0, false, true, false),
        6 => ("htlc-in-both", 0, 0, true, true, false),
        7 => ("clean-current-htlc-pending-next", 0, 0, false, false, true),
        _ => ("as-left-by-history", 0, 0, false, false, false),
    };
    ch.state_class = name;
    if class != 8 {
        let htlc = mk_htlc(rng);
        let outgoing = rng.chance(1, 4);
        let hs = |yes: bool| -> (Vec<HTLCInfo2>, Vec<HTLCInfo2>) {
            if !yes {
                (vec![], vec![])
            } else if outgoing {
                (vec![htlc.clone()], vec![])
            } else {
                (vec![], vec![htlc.clone()])
            }
        };
        let (o, i) = hs(hh);
        if let Some(c) = mk_content(rng, ch, wg, nf_with_skew(ch.base_nf, sh), o, i) {
            if !holder_update(world, ch, secp, c, true, r) {
                return false;
            }
        }
        let (o, i) = hs(hc);
        if let Some(c) = mk_content(rng, ch, wg, nf_with_skew(ch.base_nf, sc), o, i) {
            if !cp_update(world, ch, secp, c, r) {
                return false;
            }
        }
        if pending_htlc {
            let (o, i) = hs(true);
            if let Some(c) = mk_content(rng, ch, wg, nf_with_skew(ch.base_nf, 0), o, i) {
                if !holder_update(world, ch, secp, c, false, r) {
                    return false;
                }
            }
        }
    }
    r.count(&format!("state.{}", name));
    true
}

// ---------------------------------------------------------------------------------------------
// closing requests

#[derive(Clone, Debug)]
struct Assign {
    to_holder: u64,
    to_cp: u64,
    holder_script: Option<ScriptBuf>,
    cp_script: Option<ScriptBuf>,
    path: DerivationPath,
}

impl Assign {
    fn json(&self) -> Value {
        json!({"to_holder_value_sat": self.to_holder, "to_counterparty_value_sat": self.to_cp,
               "holder_script": script_hex(&self.holder_script), "counterparty_script": script_hex(&self.cp_script),
               "holder_wallet_path": path_json(&self.path)})
    }
    fn outs(&self) -> Vec<(u64, ScriptBuf)> {
        vec![
            (self.to_holder, self.holder_script.clone().unwrap_or_default()),
            (self.to_cp, self.cp_script.clone().unwrap_or_default()),
        ]
    }
}

struct Labels {
    script_kind: &'static str,
    value_class: &'static str,
    fee_class: &'static str,
    muts: Vec<&'static str>,
}

fn pick_holder_script(
    world: &World,
    wg: &mut WorldGhost,
    ch: &ChanGhost,
    rng: &mut Rng,
    secp: &Secp256k1<All>,
    cp_script: &ScriptBuf,
    r: &mut Report,
) -> (ScriptBuf, DerivationPath, &'static str) {
    let node = &world.node;
    if let Some(up) = &ch.setup.holder_shutdown_script {
        if rng.chance(13, 20) {
            return (up.clone(), ch.upfront_path.clone(), "upfront");
        }
    }
    let i = rng.below(50) as u32;
    let p = path1(i);
    let kind = rng.weighted(&[20, 9, 9, 5, 3, 2, 14, 7, 5, 8, 3, 3, 4, 8]);
    match kind {
        0 => (node.get_native_address(&p).unwrap().script_pubkey(), p, "wallet-p2wpkh"),
        1 => (node.get_wrapped_address(&p).unwrap().script_pubkey(), p, "wallet-p2sh-p2wpkh"),
        2 => (node.get_taproot_address(&p).unwrap().script_pubkey(), p, "wallet-p2tr"),
        3 => (node.get_native_address(&p).unwrap().script_pubkey(), path1(i + 1), "wallet-wrong-path"),
        4 => (node.get_native_address(&p).unwrap().script_pubkey(), DerivationPath::master(), "wallet-empty-path"),
        5 => {
            let lp = DerivationPath::from(vec![ChildNumber::from_normal_idx(0).unwrap(), ChildNumber::from_normal_idx(i).unwrap()]);
            (node.get_native_address(&p).unwrap().script_pubkey(), lp, "wallet-long-path")
        }
        6 => {
            let mut a = wg.allowed_ext();
            if a.is_empty() {
                let j = rng.usize(6);
                allowlist_op(world, wg, 0, &[Entry::Ext(j, rng.bool())], r);
                a = vec![j];
            }
            let j = *rng.pick(&a);
            let path = if rng.bool() { DerivationPath::master() } else { p };
            (wg.ext[j].0.clone(), path, "allowlisted")
        }
        7 => {
            let mut a = wg.allowed_ext();
            if a.is_empty() {
                let j = rng.usize(6);
                allowlist_op(world, wg, 0, &[Entry::Ext(j, rng.bool())], r);
                a = vec![j];
            }
            let j = *rng.pick(&a);
            if rng.chance(3, 4) {
                allowlist_op(world, wg, 1, &[Entry::Ext(j, rng.bool())], r);
            } else {
                // replaced wholesale
                let others: Vec<Entry> = a.iter().filter(|x| **x != j).map(|x| Entry::Ext(*x, true)).collect();
                allowlist_op(world, wg, 2, &others, r);
            }
            (wg.ext[j].0.clone(), DerivationPath::master(), "allowlist-entry-removed-before-signing")
        }
        8 => {
            let a = wg.allowed_ext();
            let not: Vec<usize> = (0..6).filter(|x| !a.contains(x)).collect();
            let j = if not.is_empty() {
                let j = rng.usize(6);
                allowlist_op(world, wg, 1, &[Entry::Ext(j, true)], r);
                j
            } else {
                *rng.pick(&not)
            };
            (wg.ext[j].0.clone(), if rng.bool() { DerivationPath::master() } else { p }, "external-not-allowlisted")
        }
        9 | 10 | 11 => {
            let mut a = wg.allowed_xpubs();
            if a.is_empty() {
                let j = rng.usize(2);
                allowlist_op(world, wg, 0, &[Entry::Xpub(j)], r);
                a = vec![j];
            }
            let j = *rng.pick(&a);
            let cs = child_scripts(secp, &wg.xpubs[j], &p).expect("child");
            let form = *rng.pick(&[0usize, 0, 2, 3]);
            if kind == 9 {
                (cs[form].clone(), p, "xpub-child")
            } else if kind == 10 {
                (cs[form].clone(), path1(i + 1), "xpub-child-wrong-path")
            } else {
                allowlist_op(world, wg, 1, &[Entry::Xpub(j)], r);
                (cs[form].clone(), p, "xpub-removed-before-signing")
            }
        }
        12 => (cp_script.clone(), if rng.bool() { DerivationPath::master() } else { p }, "counterparty-script"),
        _ => (rand_ext_script(rng, secp), if rng.bool() { DerivationPath::master() } else { p }, "unknown"),
    }
}

fn gen_close(
    world: &World,
    wg: &mut WorldGhost,
    ch: &ChanGhost,
    rng: &mut Rng,
    secp: &Secp256k1<All>,
    r: &mut Report,
) -> (Assign, Labels) {
    let c = ch.setup.channel_value_sat;
    let eps = wg.eps;
    let cp_script = ScriptBuf::new_p2wpkh(&WPubkeyHash::from_byte_array(rng.bytes::<20>()));
    let (hs, path, script_kind) = pick_holder_script(world, wg, ch, rng, secp, &cp_script, r);

    // value of the side that does not pay the fee
    let h = ch.holder_cur.as_ref().map(|x| ch.nf_of(x)).unwrap_or(ch.base_nf);
    let cc = ch.cp_cur.as_ref().map(|x| ch.nf_of(x)).unwrap_or(ch.base_nf);
    let (mn, mx) = (h.min(cc), h.max(cc));
    let lo_valid = mx.saturating_sub(eps);
    let hi_valid = mn.saturating_add(eps);
    let (nf, value_class): (u64, &'static str) = match rng.weighted(&[18, 14, 12, 9, 9, 7, 7, 4, 4, 2]) {
        0 => (h, "at-holder-commitment-value"),
        1 => (cc, "at-counterparty-commitment-value"),
        2 => (mn + (mx - mn) / 2, "midpoint"),
        3 => (lo_valid, "max-minus-eps"),
        4 => (hi_valid, "min-plus-eps"),
        5 => (lo_valid.saturating_sub(1), "max-minus-eps-minus-1"),
        6 => (hi_valid + 1, "min-plus-eps-plus-1"),
        7 => (mn / 2, "far-below"),
        8 => (mx + 3 * eps + 1000, "far-above"),
        _ => (0, "zero"),
    };
    // weight of the transaction these outputs would make
    let trial = canonical_closing_tx(
        ch.setup.funding_outpoint,
        &[(if nf > 0 { 1 } else { 0 }, if ch.setup.is_outbound { cp_script.clone() } else { hs.clone() }),
          (1, if ch.setup.is_outbound { hs.clone() } else { cp_script.clone() })],
    );
    let w = trial.weight().to_wu() + 222;
    let can_wrap = (c as u128) * 1000 / (w as u128) > (1u128 << 32) + wg.min_rate as u128 + 10;
    let fee_pick = rng.weighted(&[62, 6, 6, 7, 6, 3, 4, if can_wrap { 14 } else { 0 }]);
    let typical_hi = (wg.max_rate - 3).min(wg.min_rate * 8);
    let fee_of = |rate: u64| (rate as u128 * w as u128 + 999) / 1000;
    let (fee, fee_class): (i128, &'static str) = match fee_pick {
        0 => (fee_of(rng.range(wg.min_rate + 2, typical_hi)) as i128, "typical"),
        1 => (fee_of(wg.min_rate + 1) as i128, "at-min"),
        2 => (fee_of(wg.max_rate - 3) as i128, "at-max"),
        3 => (if rng.bool() { 0 } else { fee_of(wg.min_rate / 2) as i128 }, "below-min"),
        4 => (fee_of(wg.max_rate + wg.max_rate / 5 + 50) as i128, "above-max"),
        5 => ((c as i128) - (nf as i128), "whole-funder-balance"),
        6 => (-(rng.range(1, 1000) as i128), "negative"),
        _ => (fee_of((1u64 << 32) + rng.range(wg.min_rate + 2, typical_hi)) as i128, "rate-beyond-u32"),
    };
    let funder_i = c as i128 - nf as i128 - fee;
    let funder = if funder_i < 0 { 0u64 } else { funder_i as u64 };
    let (to_holder, to_cp) = if ch.setup.is_outbound { (funder, nf) } else { (nf, funder) };
    let mut a = Assign { to_holder, to_cp, holder_script: Some(hs), cp_script: Some(cp_script), path };
    let mut muts = vec![];
    let nm = match rng.below(100) {
        0..=17 => 1,
        18..=21 => 2,
        _ => 0,
    };
    for _ in 0..nm {
        match rng.below(6) {
            0 => {
                std::mem::swap(&mut a.to_holder, &mut a.to_cp);
                muts.push("swap-values");
            }
            1 => {
                a.holder_script = None;
                muts.push("holder-script-none");
            }
            2 => {
                a.cp_script = None;
                muts.push("counterparty-script-none");
            }
            3 => {
                a.to_holder = 0;
                muts.push("holder-value-zero");
            }
            4 => {
                a.to_cp = 0;
                muts.push("counterparty-value-zero");
            }
            _ => {
                a.path = path1(rng.below(50) as u32);
                muts.push("random-path");
            }
        }
    }
    (a, Labels { script_kind, value_class, fee_class, muts })
}

/// Phase-1 request: the raw transaction and one path per output
fn build_phase1(a: &Assign, ch: &ChanGhost, rng: &mut Rng, muts: &mut Vec<&'static str>) -> (Transaction, Vec<DerivationPath>) {
    let mut outs: Vec<(u64, ScriptBuf, DerivationPath)> = vec![];
    if a.to_holder > 0 {
        if let Some(s) = &a.holder_script {
            outs.push((a.to_holder, s.clone(), a.path.clone()));
        }
    }
    if a.to_cp > 0 {
        if let Some(s) = &a.cp_script {
            // the counterparty's output normally has no path; sometimes a random one, sometimes the
            // neighbour of the holder's (the path that would fit a holder script sent with a wrong path)
            let p = match rng.below(8) {
                0 => path1(rng.below(50) as u32),
                1 | 2 => match a.path.into_iter().next().map(|c| u32::from(*c)) {
                    Some(k) if a.path.len() == 1 && k > 0 && k < (1 << 31) => path1(k - 1),
                    _ => path1(rng.below(50) as u32),
                },
                _ => DerivationPath::master(),
            };
            outs.push((a.to_cp, s.clone(), p));
        }
    }
    outs.sort_by(|x, y| x.0.cmp(&y.0).then_with(|| x.1.as_bytes().cmp(y.1.as_bytes())));
    let mut tx = canonical_closing_tx(ch.setup.funding_outpoint, &outs.iter().map(|o| (o.0, o.1.clone())).collect::<Vec<_>>());
    let mut opaths: Vec<DerivationPath> = outs.iter().map(|o| o.2.clone()).collect();
    if rng.chance(1, 9) {
        match rng.below(11) {
            0 => {
                tx.output.reverse();
                opaths.reverse();
                muts.push("p1-reversed-outputs");
            }
            1 => {
                tx.output.push(TxOut { value: Amount::from_sat(rng.range(1, 5000)), script_pubkey: ScriptBuf::new_p2wpkh(&WPubkeyHash::from_byte_array(rng.bytes::<20>())) });
                opaths.push(DerivationPath::master());
                muts.push("p1-extra-output");
            }
            2 => {
                if rng.chance(1, 6) {
                    tx.output.clear();
                    opaths.clear();
                    muts.push("p1-no-outputs");
                }
            }
            3 => {
                opaths.reverse();
                muts.push("p1-swapped-opaths");
            }
            4 => {
                if rng.bool() {
                    opaths.push(DerivationPath::master());
                } else {
                    opaths.pop();
                }
                muts.push("p1-opaths-len");
            }
            5 => {
                tx.version = Version::ONE;
                muts.push("p1-version");
            }
            6 => {
                tx.lock_time = LockTime::from_consensus(rng.range(1, 700_000) as u32);
                muts.push("p1-locktime");
            }
            7 => {
                tx.input[0].sequence = Sequence(0xffff_fffd);
                muts.push("p1-sequence");
            }
            8 => {
                if rng.bool() {
                    tx.input[0].previous_output.vout ^= 1;
                } else {
                    tx.input[0].previous_output.txid = Txid::from_byte_array(rng.bytes::<32>());
                }
                muts.push("p1-outpoint");
            }
            9 => {
                tx.output.insert(0, TxOut { value: Amount::ZERO, script_pubkey: ScriptBuf::new_p2wpkh(&WPubkeyHash::from_byte_array(rng.bytes::<20>())) });
                opaths.insert(0, DerivationPath::master());
                muts.push("p1-zero-value-output");
            }
            _ => {
                let mut i2 = tx.input[0].clone();
                i2.previous_output.vout += 7;
                tx.input.push(i2);
                muts.push("p1-second-input");
            }
        }
    }
    (tx, opaths)
}

// ---------------------------------------------------------------------------------------------
// the reference (written from the property statement and docs/policy-controls.md)

/// Clauses of the property that the assignment fails (empty = the signature was allowed)
fn eval_assign(secp: &Secp256k1<All>, wg: &WorldGhost, ch: &ChanGhost, a: &Assign) -> Vec<&'static str> {
    let mut bad = vec![];
    let (hc, cc) = match (&ch.holder_cur, &ch.cp_cur) {
        (Some(h), Some(c)) => (h, c),
        _ => {
            bad.push("c07:signed-without-both-current-commitments");
            return bad;
        }
    };
    // no HTLC pending in either current commitment
    if hc.has_htlcs() || cc.has_htlcs() {
        bad.push("c07:signed-with-pending-htlc");
    }
    // fee within the policy range
    let c = ch.setup.channel_value_sat as u128;
    let sum = a.to_holder as u128 + a.to_cp as u128;
    if sum > c {
        bad.push("c07:outputs-exceed-channel-value");
    } else {
        let fee = c - sum;
        let tx = canonical_closing_tx(ch.setup.funding_outpoint, &a.outs());
        let (w_lo, w_hi) = closing_weight_bounds(&tx);
        let rate_least = fee * 1000 / w_hi as u128; // the smallest defensible reading of the rate
        let rate_most = (fee * 1000 + w_lo as u128 - 1) / w_lo as u128; // the largest one
        if rate_least > wg.max_rate as u128 + 1 {
            if rate_most > u32::MAX as u128 {
                bad.push("c07:fee-rate-above-policy-max-beyond-u32");
            } else {
                bad.push("c07:fee-rate-above-policy-max");
            }
        }
        if rate_most + 1 < wg.min_rate as u128 {
            bad.push("c07:fee-rate-below-policy-min");
        }
    }
    // the side that does not pay the fee gets its balance from BOTH latest commitments within eps
    let outside = |v: u64, r: u64| if v > r { v - r > wg.eps } else { r - v > wg.eps };
    if ch.setup.is_outbound {
        if outside(a.to_cp, hc.to_cp) || outside(a.to_cp, cc.to_cp) {
            bad.push("c07:counterparty-value-outside-epsilon");
        }
    } else {
        let mut under = false;
        let mut over = false;
        for rf in [hc.to_holder, cc.to_holder] {
            if outside(a.to_holder, rf) {
                if a.to_holder < rf {
                    under = true;
                } else {
                    over = true;
                }
            }
        }
        if under {
            bad.push("c07:holder-underpaid-beyond-epsilon");
        } else if over {
            bad.push("c07:holder-value-above-commitment-beyond-epsilon");
        }
    }
    // any holder output goes to a wallet-derivable or allowlisted script = the upfront one if fixed
    if a.to_holder > 0 {
        match &a.holder_script {
            None => bad.push("c07:holder-output-without-script"),
            Some(s) => {
                if let Some(up) = &ch.setup.holder_shutdown_script {
                    if up != s {
                        bad.push("c07:upfront-shutdown-script-ignored");
                    }
                }
                if !wallet_derivable(secp, wg, &a.path, s) && !allowlisted(secp, wg, &a.path, s) {
                    bad.push("c07:holder-output-to-unknown-script");
                }
            }
        }
    }
    bad
}

fn phase1_candidates(tx: &Transaction, opaths: &[DerivationPath]) -> Vec<Assign> {
    let o = &tx.output;
    let p = |i: usize| opaths.get(i).cloned().unwrap_or_else(DerivationPath::master);
    match o.len() {
        0 => vec![Assign { to_holder: 0, to_cp: 0, holder_script: None, cp_script: None, path: DerivationPath::master() }],
        1 => vec![
            Assign { to_holder: o[0].value.to_sat(), to_cp: 0, holder_script: Some(o[0].script_pubkey.clone()), cp_script: None, path: p(0) },
            Assign { to_holder: 0, to_cp: o[0].value.to_sat(), holder_script: None, cp_script: Some(o[0].script_pubkey.clone()), path: DerivationPath::master() },
        ],
        2 => vec![
            Assign { to_holder: o[0].value.to_sat(), to_cp: o[1].value.to_sat(), holder_script: Some(o[0].script_pubkey.clone()), cp_script: Some(o[1].script_pubkey.clone()), path: p(0) },
            Assign { to_holder: o[1].value.to_sat(), to_cp: o[0].value.to_sat(), holder_script: Some(o[1].script_pubkey.clone()), cp_script: Some(o[0].script_pubkey.clone()), path: p(1) },
        ],
        _ => vec![],
    }
}

fn sig_over(secp: &Secp256k1<All>, ch: &ChanGhost, tx: &Transaction, sig: &Signature) -> bool {
    let redeem = make_funding_redeemscript(&ch.holder_funding, &ch.setup.counterparty_points.funding_pubkey);
    let sh = match SighashCache::new(tx).p2wsh_signature_hash(0, &redeem, Amount::from_sat(ch.setup.channel_value_sat), EcdsaSighashType::All) {
        Ok(s) => s,
        Err(_) => return false,
    };
    secp.verify_ecdsa(&Message::from_digest(sh.to_byte_array()), sig, &ch.holder_funding).is_ok()
}

// ---------------------------------------------------------------------------------------------
// the protocol-handler entry: the same requests as wire messages to the channel's ChannelHandler

fn make_channel_handler(node: &Arc<Node>, version: u32, peer_id: [u8; 33], dbid: u64) -> ChannelHandler {
    let mut init = InitHandler::new(0, node.clone(), Arc::new(PositiveApprover()), version);
    let msg = WireMessage::HsmdInit(msgs::HsmdInit {
        key_version: Bip32KeyVersion { pubkey_version: 0x043587CF, privkey_version: 0x04358394 },
        chain_params: BlockHash::all_zeros(),
        encryption_key: None,
        dev_privkey: None,
        dev_bip32_seed: None,
        dev_channel_secrets: None,
        dev_channel_secrets_shaseed: None,
        hsm_wire_min_version: 2,
        hsm_wire_max_version: version,
    });
    init.handle(msg).expect("hsmd init");
    let root: RootHandler = init.into();
    root.for_new_client(1, PubKey(peer_id), dbid)
}

/// How a phase-1 request travels: next to the transaction a PSBT whose outputs carry the key path of
/// each output (bip32 derivation or taproot key origin; nothing = the empty path), and the
/// counterparty's funding key
struct WireP1 {
    psbt: Psbt,
    remote_funding_key: PublicKey,
    encoding: Vec<&'static str>,
}

impl WireP1 {
    fn json(&self) -> Value {
        let outs: Vec<Value> = self
            .psbt
            .outputs
            .iter()
            .map(|o| {
                json!({
                    "bip32_derivation": o.bip32_derivation.iter().map(|(k, (f, p))| json!([k.to_string(), f.to_string(), path_json(p)])).collect::<Vec<_>>(),
                    "tap_key_origins": o.tap_key_origins.iter().map(|(k, (h, (f, p)))| json!([k.to_string(), h.len(), f.to_string(), path_json(p)])).collect::<Vec<_>>(),
                })
            })
            .collect();
        json!({"psbt_unsigned_tx": bitcoin::consensus::encode::serialize_hex(&self.psbt.unsigned_tx),
               "psbt_outputs": outs, "path_encoding": self.encoding,
               "remote_funding_key": self.remote_funding_key.to_string()})
    }
}

/// keys named in the PSBT's key sources (the handler reads only the path next to them)
fn psbt_key(rng: &mut Rng, secp: &Secp256k1<All>) -> PublicKey {
    static POOL: std::sync::OnceLock<Vec<PublicKey>> = std::sync::OnceLock::new();
    let pool = POOL.get_or_init(|| {
        (1u8..=32).map(|i| PublicKey::from_secret_key(secp, &SecretKey::from_slice(&[i; 32]).expect("key"))).collect()
    });
    pool[rng.usize(pool.len())]
}

fn wire_phase1(
    tx: &Transaction,
    opaths: &[DerivationPath],
    ch: &ChanGhost,
    rng: &mut Rng,
    secp: &Secp256k1<All>,
    muts: &mut Vec<&'static str>,
) -> Result<WireP1, String> {
    // the PSBT is that of the transaction itself; only a request with a wrong number of paths needs a
    // PSBT with a different number of outputs
    let mut ptx = tx.clone();
    while ptx.output.len() > opaths.len() {
        ptx.output.pop();
    }
    while ptx.output.len() < opaths.len() {
        ptx.output.push(TxOut { value: Amount::from_sat(1000), script_pubkey: ScriptBuf::new_p2wpkh(&WPubkeyHash::from_byte_array(rng.bytes::<20>())) });
    }
    let mut psbt = Psbt::from_unsigned_tx(ptx).map_err(|e| format!("{:?}", e))?;
    let mut encoding = vec![];
    // the handler gives up (`unimplemented!`) on an output with two key sources or with tap leaves: a few
    // of those, always with the same path on both so that the request keeps one meaning
    let odd = if !opaths.is_empty() && rng.chance(1, 150) { Some((rng.usize(opaths.len()), rng.bool())) } else { None };
    for (i, p) in opaths.iter().enumerate() {
        let pk = psbt_key(rng, secp);
        let src = (Fingerprint::from(rng.bytes::<4>()), p.clone());
        let style = if p.is_empty() { rng.below(5) } else { rng.below(4) + 5 };
        let o = &mut psbt.outputs[i];
        match style {
            0 => {
                o.bip32_derivation.insert(pk, src.clone());
                encoding.push("bip32-derivation-with-empty-path");
            }
            1 => {
                o.tap_key_origins.insert(pk.x_only_public_key().0, (vec![], src.clone()));
                encoding.push("tap-key-origin-with-empty-path");
            }
            2..=4 => encoding.push("nothing"),
            5 => {
                o.tap_key_origins.insert(pk.x_only_public_key().0, (vec![], src.clone()));
                encoding.push("tap-key-origin");
            }
            _ => {
                o.bip32_derivation.insert(pk, src.clone());
                encoding.push("bip32-derivation");
            }
        }
        if let Some((j, two)) = odd {
            if j == i {
                let pk2 = loop {
                    let k = psbt_key(rng, secp);
                    if k != pk {
                        break k;
                    }
                };
                if two {
                    if o.tap_key_origins.is_empty() {
                        o.bip32_derivation.insert(pk, src.clone());
                        o.bip32_derivation.insert(pk2, src.clone());
                    } else {
                        o.tap_key_origins.insert(pk2.x_only_public_key().0, (vec![], src.clone()));
                    }
                    muts.push("h1-two-key-sources-on-one-output");
                } else {
                    o.bip32_derivation.clear();
                    o.tap_key_origins.clear();
                    o.tap_key_origins.insert(pk.x_only_public_key().0, (vec![TapLeafHash::from_byte_array(rng.bytes::<32>())], src.clone()));
                    muts.push("h1-tap-key-origin-with-leaf-hash");
                }
            }
        }
    }
    // the handler has no use for this field; it is the real key except now and then
    let remote_funding_key = if rng.chance(1, 10) {
        muts.push("h1-foreign-remote-funding-key");
        PublicKey::from_secret_key(secp, &rand_sk(rng))
    } else {
        ch.setup.counterparty_points.funding_pubkey
    };
    Ok(WireP1 { psbt, remote_funding_key, encoding })
}

fn wire_path(p: &DerivationPath) -> Vec<u32> {
    p.into_iter().map(|c| u32::from(*c)).collect()
}

/// a missing script is an empty byte string on the wire, the path a list of u32 (empty = no path)
fn wire_phase2(a: &Assign) -> msgs::SignMutualCloseTx2 {
    msgs::SignMutualCloseTx2 {
        to_local_value_sat: a.to_holder,
        to_remote_value_sat: a.to_cp,
        local_script: Octets(a.holder_script.as_ref().map(|s| s.to_bytes()).unwrap_or_default()),
        remote_script: Octets(a.cp_script.as_ref().map(|s| s.to_bytes()).unwrap_or_default()),
        local_wallet_path_hint: ArrayBE(wire_path(&a.path)),
    }
}

fn handler_err(e: &HandlerError) -> String {
    match e {
        HandlerError::Signing(s) | HandlerError::Temporary(s) => short_err(s),
        HandlerError::Protocol(p) => format!("protocol error: {:?}", p),
    }
}

enum Req {
    P1 { tx: Transaction, opaths: Vec<DerivationPath>, wire: Option<WireP1> },
    P2 { a: Assign },
}

/// Send the request: straight to the channel (`via` = None) or as a wire message to a protocol handler of
/// the given protocol version.  The handler's reply carries the signature and its sighash type.
fn issue(world: &World, ch: &mut ChanGhost, via: Option<u32>, req: &Req, r: &mut Report) -> Result<(Signature, Option<u8>), Outcome> {
    let v = match via {
        None => {
            return match req {
                Req::P1 { tx, opaths, .. } => run_chan(world, &ch.id, |chan| chan.sign_mutual_close_tx(tx, opaths)).map(|s| (s, None)),
                Req::P2 { a } => run_chan(world, &ch.id, |chan| {
                    chan.sign_mutual_close_tx_phase2(a.to_holder, a.to_cp, &a.holder_script, &a.cp_script, &a.path)
                })
                .map(|s| (s, None)),
            }
        }
        Some(v) => v,
    };
    let (name, msg) = match req {
        Req::P1 { tx, wire, .. } => {
            let w = wire.as_ref().expect("wire form of the phase-1 request");
            (
                "SignMutualCloseTx",
                WireMessage::SignMutualCloseTx(msgs::SignMutualCloseTx {
                    tx: WithSize(tx.clone()),
                    psbt: WithSize(PsbtWrapper { inner: w.psbt.clone() }),
                    remote_funding_key: PubKey(w.remote_funding_key.serialize()),
                }),
            )
        }
        Req::P2 { a } => ("SignMutualCloseTx2", WireMessage::SignMutualCloseTx2(wire_phase2(a))),
    };
    // a handler lives as long as the node object it was made for (a restart makes a new one)
    ch.handlers.retain(|(_, h)| Arc::ptr_eq(h.node(), &world.node));
    if !ch.handlers.iter().any(|(hv, _)| *hv == v) {
        let (node, peer_id, dbid) = (world.node.clone(), ch.peer_id, ch.dbid);
        match report::catch(|| make_channel_handler(&node, v, peer_id, dbid)) {
            Ok(h) => {
                r.count("handler.created");
                ch.handlers.push((v, h));
            }
            Err(p) => {
                r.inconclusive(&format!("cannot set up a protocol handler (version {}): {}", v, p));
                return Err(Outcome::Panic(p));
            }
        }
    }
    let h = &ch.handlers.iter().find(|(hv, _)| *hv == v).expect("handler").1;
    let got = report::catch(|| h.handle(msg));
    match got {
        Ok(Ok(reply)) => match reply.as_any().downcast_ref::<msgs::SignTxReply>() {
            Some(rep) => match Signature::from_compact(&rep.signature.signature.0) {
                Ok(sig) => {
                    r.count(&format!("handler.{}.ok", name));
                    Ok((sig, Some(rep.signature.sighash)))
                }
                Err(e) => {
                    r.inconclusive(&format!("handler {}: signature in the reply does not parse: {}", name, e));
                    Err(Outcome::Refused("unparseable reply".into()))
                }
            },
            None => {
                r.inconclusive(&format!("handler {}: reply is not a SignTxReply", name));
                Err(Outcome::Refused("unexpected reply type".into()))
            }
        },
        Ok(Err(e)) => {
            r.count(&format!("handler.{}.refused", name));
            Err(Outcome::Refused(handler_err(&e)))
        }
        Err(p) => {
            r.count(&format!("handler.{}.panic", name));
            Err(Outcome::Panic(p))
        }
    }
}

// ---------------------------------------------------------------------------------------------
// one closing attempt: request, outcome, oracle, closed-flag checks

struct Env<'a> {
    secp: &'a Secp256k1<All>,
    seed: u64,
    shard: usize,
    world_ix: u64,
    chan_ix: u64,
}

fn policy_json(wg: &WorldGhost) -> Value {
    json!({"epsilon_sat": wg.eps, "min_feerate_per_kw": wg.min_rate, "max_feerate_per_kw": wg.max_rate})
}

fn witness(env: &Env, wg: &WorldGhost, ch: &ChanGhost, entry: &str, request: Value, extra: Value) -> Value {
    json!({
        "seed": env.seed, "shard": env.shard, "world": env.world_ix, "channel": env.chan_ix,
        "entry_point": entry,
        "policy": policy_json(wg),
        "setup": ch.setup_json(),
        "counterparty_commitment_seed": hex::encode(ch.cp.seed),
        "ghost": {
            "state_class": ch.state_class,
            "current_holder_commitment": ch.holder_cur.as_ref().map(|c| c.json()),
            "validated_not_yet_current_holder_commitment": ch.holder_pending.as_ref().map(|c| c.json()),
            "current_counterparty_commitment": ch.cp_cur.as_ref().map(|c| c.json()),
            "next_holder_commit_num": ch.next_holder, "next_counterparty_commit_num": ch.next_cp,
            "next_counterparty_revoke_num": ch.next_cp_revoke,
            "allowlist_now": wg.allow.iter().cloned().collect::<Vec<_>>(),
        },
        "request": request,
        "observed": extra,
        "channel_history": ch.hist,
        "allowlist_history": wg.ops.iter().rev().take(40).rev().cloned().collect::<Vec<_>>(),
    })
}

/// a clean, validly counter-signed holder commitment for the next number: must be refused once closed
fn probe_new_holder_commitment(world: &World, ch: &ChanGhost, wg: &WorldGhost, rng: &mut Rng, secp: &Secp256k1<All>) -> Option<Result<(), Outcome>> {
    let base = ch.holder_cur.as_ref()?;
    let nf = ch.nf_of(base);
    let nf2 = if nf > DUST + 10 { nf - 1 } else { nf };
    let content = mk_content(rng, ch, wg, nf2, vec![], vec![])?;
    let n = ch.next_holder;
    let cp = ch.cp.clone();
    Some(run_chan(world, &ch.id, |chan| {
        let (sig, hsigs) = cp_sign_holder(chan, &cp, secp, n, &content)?;
        chan.validate_holder_commitment_tx_phase2(n, content.feerate, content.to_holder, content.to_cp, vec![], vec![], &sig, &hsigs)
    }))
}

fn persisted_closed(world: &World, ch: &ChanGhost) -> Option<bool> {
    let key = format!("channel/{}/{}", hex::encode(world.node.get_id().serialize()), hex::encode(ch.id.as_slice()));
    for (k, _v, bytes) in world.store.dump() {
        if k == key {
            let v: Value = serde_json::from_slice(&bytes).ok()?;
            return v.get("enforcement_state")?.get("channel_closed")?.as_bool();
        }
    }
    None
}

/// Returns false when the world became unusable
fn check_closed(
    world: &mut World,
    wg: &WorldGhost,
    ch: &mut ChanGhost,
    rng: &mut Rng,
    env: &Env,
    entry: &str,
    request: &Value,
    r: &mut Report,
) -> bool {
    let secp = env.secp;
    // 1. the flag
    r.count("rule.closed.flag_checked");
    match run_chan(world, &ch.id, |chan| Ok(chan.enforcement_state.channel_closed)) {
        Ok(true) => {}
        Ok(false) => r.violation("c07:not-marked-closed-after-signing", witness(env, wg, ch, &entry, request.clone(), json!({"enforcement_state.channel_closed": false}))),
        Err(_) => {
            r.inconclusive("cannot read channel after close");
            return false;
        }
    }
    // 2. durable
    r.count("rule.closed.persisted_checked");
    match persisted_closed(world, ch) {
        Some(true) => {}
        Some(false) => r.violation("c07:closed-flag-not-persisted", witness(env, wg, ch, &entry, request.clone(), json!({"persisted ChannelEntry.enforcement_state.channel_closed": false}))),
        None => r.inconclusive("persisted channel entry not found / not parseable"),
    }
    let deep = !ch.first_ok_checked || rng.chance(1, 10);
    if !deep {
        return true;
    }
    ch.first_ok_checked = true;
    // 3. behavioural: a new holder commitment is refused
    match probe_new_holder_commitment(world, ch, wg, rng, secp) {
        Some(Ok(())) => {
            r.count("rule.closed.probe_done");
            r.violation("c07:new-holder-commitment-accepted-after-close", witness(env, wg, ch, &entry, request.clone(), json!({"validate_holder_commitment_tx_phase2(next)": "Ok", "restarted": false})));
        }
        Some(Err(Outcome::Refused(e))) => {
            r.count("rule.closed.probe_done");
            r.count("rule.closed.probe_refused");
            r.set_add("closed_probe_refusals", &e);
        }
        Some(Err(Outcome::Panic(p))) => {
            r.note(&format!("probe panicked: {}", p));
            return recover(world, r);
        }
        _ => r.count("rule.closed.probe_skipped"),
    }
    // 4. after a restart from the store alone
    if rng.chance(2, 3) {
        if let Err(e) = world.restart() {
            r.inconclusive(&format!("restart failed: {}", e));
            return false;
        }
        r.count("rule.closed.restart_checked");
        match run_chan(world, &ch.id, |chan| Ok(chan.enforcement_state.channel_closed)) {
            Ok(true) => {}
            Ok(false) => r.violation("c07:closed-flag-lost-on-restart", witness(env, wg, ch, &entry, request.clone(), json!({"after restart enforcement_state.channel_closed": false}))),
            Err(_) => {
                r.violation("c07:closed-flag-lost-on-restart", witness(env, wg, ch, &entry, request.clone(), json!({"after restart": "channel missing or not ready"})));
                return true;
            }
        }
        match probe_new_holder_commitment(world, ch, wg, rng, secp) {
            Some(Ok(())) => r.violation("c07:closed-flag-lost-on-restart", witness(env, wg, ch, &entry, request.clone(), json!({"validate_holder_commitment_tx_phase2(next)": "Ok", "restarted": true}))),
            Some(Err(Outcome::Refused(_))) => r.count("rule.closed.restart_probe_refused"),
            Some(Err(Outcome::Panic(p))) => {
                r.note(&format!("probe panicked: {}", p));
                return recover(world, r);
            }
            _ => {}
        }
    }
    true
}

fn close_attempt(world: &mut World, wg: &mut WorldGhost, ch: &mut ChanGhost, rng: &mut Rng, env: &Env, r: &mut Report) -> bool {
    let secp = env.secp;
    if rng.chance(1, 5) {
        random_allowlist_op(world, wg, rng, r);
    }
    let (a, mut lab) = gen_close(world, wg, ch, rng, secp, r);
    let mut phase1 = rng.bool();
    // phase 1 cannot express "value without script"; a transaction without outputs makes the
    // signer panic (index out of bounds in decode_and_validate_mutual_close_tx), which costs a
    // restart, so only a few of those are sent
    let expressible = (a.to_holder > 0 && a.holder_script.is_some()) || (a.to_cp > 0 && a.cp_script.is_some());
    if phase1 && !expressible && !rng.chance(1, 12) {
        phase1 = false;
    }
    let htlc_pending = ch.any_htlc();
    r.eval(1);
    if htlc_pending {
        r.count("antecedent.attempt_with_pending_htlc");
    }
    r.count(&format!("attempt.state.{}", ch.state_class));
    r.count(&format!("attempt.holder_script.{}", lab.script_kind));
    r.count(&format!("attempt.value.{}", lab.value_class));
    r.count(&format!("attempt.fee.{}", lab.fee_class));

    // --- issue the request: straight to the channel, or as a wire message through a protocol handler
    let via: Option<u32> = if rng.chance(1, 2) { Some(4 + rng.below(3) as u32) } else { None };
    let entry: String;
    let request: Value;
    let cands: Vec<Assign>;
    let submitted: Option<Transaction>;
    let req: Req;
    if phase1 {
        let (tx, opaths) = build_phase1(&a, ch, rng, &mut lab.muts);
        let wire = match via {
            Some(_) => match wire_phase1(&tx, &opaths, ch, rng, secp, &mut lab.muts) {
                Ok(w) => Some(w),
                Err(e) => {
                    r.inconclusive(&format!("cannot build the PSBT of a closing transaction: {}", e));
                    return true;
                }
            },
            None => None,
        };
        entry = match via {
            Some(v) => format!("protocol handler (version {}): SignMutualCloseTx", v),
            None => "sign_mutual_close_tx".to_string(),
        };
        request = json!({"tx": bitcoin::consensus::encode::serialize_hex(&tx),
                         "outputs": tx.output.iter().map(|o| json!([o.value.to_sat(), o.script_pubkey.to_hex_string()])).collect::<Vec<_>>(),
                         "opaths": opaths.iter().map(path_json).collect::<Vec<_>>(),
                         "wire": wire.as_ref().map(|w| w.json()),
                         "intended": a.json(), "mutations": lab.muts,
                         "labels": [lab.script_kind, lab.value_class, lab.fee_class]});
        if let Some(w) = &wire {
            for e in &w.encoding {
                r.count(&format!("handler.wire.SignMutualCloseTx.output_path_as.{}", e));
            }
        }
        // the reference reads the request as the property does: the transaction's outputs, each with the
        // path that the request gives for it
        cands = phase1_candidates(&tx, &opaths);
        // the case that tells whether each output is checked against ITS OWN path: a holder script sent with
        // the wrong path while the path that fits it sits on the other output
        if lab.script_kind.ends_with("wrong-path") && opaths.len() == 2 && a.path.len() == 1 {
            let k = u32::from(a.path[0]);
            if k > 0 && opaths.iter().any(|p| *p == path1(k - 1)) {
                r.count(if via.is_some() { "antecedent.fitting_path_on_the_other_output.handler" } else { "antecedent.fitting_path_on_the_other_output.direct" });
            }
        }
        submitted = Some(tx.clone());
        req = Req::P1 { tx, opaths, wire };
    } else {
        entry = match via {
            Some(v) => format!("protocol handler (version {}): SignMutualCloseTx2", v),
            None => "sign_mutual_close_tx_phase2".to_string(),
        };
        let wire = via.map(|_| {
            let m = wire_phase2(&a);
            r.count(if m.local_script.0.is_empty() { "handler.wire.SignMutualCloseTx2.local_script.empty" } else { "handler.wire.SignMutualCloseTx2.local_script.present" });
            r.count(if m.remote_script.0.is_empty() { "handler.wire.SignMutualCloseTx2.remote_script.empty" } else { "handler.wire.SignMutualCloseTx2.remote_script.present" });
            r.count(if m.local_wallet_path_hint.0.is_empty() { "handler.wire.SignMutualCloseTx2.path_hint.empty" } else { "handler.wire.SignMutualCloseTx2.path_hint.present" });
            json!({"to_local_value_sat": m.to_local_value_sat, "to_remote_value_sat": m.to_remote_value_sat,
                   "local_script": hex::encode(&m.local_script.0), "remote_script": hex::encode(&m.remote_script.0),
                   "local_wallet_path_hint": m.local_wallet_path_hint.0})
        });
        request = json!({"args": a.json(), "wire": wire, "mutations": lab.muts, "labels": [lab.script_kind, lab.value_class, lab.fee_class]});
        cands = vec![a.clone()];
        submitted = None;
        req = Req::P2 { a: a.clone() };
    }
    if let Some(v) = via {
        r.count(&format!("handler.protocol_version.{}", v));
    }
    // one attempt in eight meets a store that is unavailable for one write ("temporarily unavailable, might
    // work later"): the request fails without a signature and the node sends it again
    let inject = rng.chance(1, 8);
    if inject {
        world.store.arm_faults(0, 1);
    }
    let first = issue(world, ch, via, &req, r);
    let fired = if inject { world.store.disarm_faults() } else { 0 };
    let res: Result<(Signature, Option<u8>), Outcome> = if fired > 0 && !matches!(first, Ok(_)) {
        r.count("storage_fault.close_request_failed_at_the_store_and_was_retried");
        if via.is_some() {
            r.count("storage_fault.handler_request_failed_at_the_store_and_was_retried");
        }
        issue(world, ch, via, &req, r)
    } else {
        first
    };
    for m in &lab.muts {
        r.count(&format!("attempt.mutation.{}", m));
    }

    // --- the reference verdict (computed for every request so that the generator's reach is visible)
    let evals: Vec<Vec<&'static str>> = cands.iter().map(|c| eval_assign(secp, wg, ch, c)).collect();
    let best = evals.iter().enumerate().min_by_key(|(_, e)| e.len()).map(|(i, _)| i);
    let mut allowed = best.map(|i| evals[i].is_empty()).unwrap_or(false);
    let mut noncanonical = false;
    if let Some(tx) = &submitted {
        let outs: Vec<(u64, ScriptBuf)> = tx.output.iter().map(|o| (o.value.to_sat(), o.script_pubkey.clone())).collect();
        let canon = canonical_closing_tx(ch.setup.funding_outpoint, &outs);
        if canon != *tx || tx.output.len() > 2 {
            noncanonical = true;
            allowed = false;
        }
    }
    let okk = matches!(res, Ok(_));
    let ep = match (phase1, via.is_some()) {
        (true, false) => "p1",
        (false, false) => "p2",
        (true, true) => "h1",
        (false, true) => "h2",
    };
    r.count(&format!("close.{}.{}", ep, match &res { Ok(_) => "ok", Err(Outcome::Refused(_)) => "refused", _ => "panic" }));
    r.count(&format!("matrix.reference_{}.signer_{}", if allowed { "allows" } else { "forbids" }, if okk { "signed" } else { "did_not_sign" }));
    // hostile classes: requests the reference forbids, by first reason
    if !allowed {
        let why = if noncanonical { "noncanonical-or-malformed-tx" } else { best.and_then(|i| evals[i].first().copied()).unwrap_or("no-assignment") };
        r.count(&format!("antecedent.forbidden.{}", why.trim_start_matches("c07:")));
    }
    // monitor-relevant abstraction of the situation: entry, direction, upfront fixed?, pair-of-commitments
    // class, kind of holder destination, what the reference says (first failed clause), closed before, outcome
    let verdict = if allowed {
        "allowed"
    } else if noncanonical {
        "noncanonical"
    } else {
        best.and_then(|i| evals[i].first().copied()).unwrap_or("no-assignment")
    };
    r.distinct_str(&format!(
        "{}|{}|{}|{}|{}|{}|{}|{}",
        ep, ch.setup.is_outbound, ch.setup.holder_shutdown_script.is_some(), ch.state_class, lab.script_kind, verdict, ch.closed, okk
    ));
    ch.log(json!({"op": entry, "request": request, "res": match &res { Ok((s, _)) => format!("Ok({})", s), Err(Outcome::Refused(e)) => e.clone(), Err(Outcome::Panic(p)) => format!("panic: {}", p), Err(Outcome::Ok) => String::new() }}));

    match res {
        Err(Outcome::Refused(e)) => {
            if allowed {
                r.set_add("refusals_of_requests_the_reference_allows", &format!("{} <= {} {} {:?} outbound={} upfront={}", e, ep, lab.script_kind, lab.muts, ch.setup.is_outbound, ch.upfront_kind));
            } else {
                r.set_add("refusals", &e);
            }
            true
        }
        Err(Outcome::Panic(p)) => {
            r.set_add("panics", &format!("{}: {} [outputs in tx: {}]", entry, p, submitted.as_ref().map(|t| t.output.len() as i64).unwrap_or(-1)));
            recover(world, r)
        }
        Err(Outcome::Ok) => true,
        Ok((sig, reply_sighash)) => {
            ch.closed = true;
            if r.samples.len() < 4 {
                r.sample(json!({"entry_point": entry, "request": request, "result": format!("Ok({})", sig),
                                "setup": ch.setup_json(), "policy": policy_json(wg), "state_class": ch.state_class}));
            }
            // which assignment do we judge? the explicit one, or the best of the two readings
            let bi = best.unwrap_or(0);
            if cands.is_empty() {
                r.violation("c07:signed-with-more-than-two-outputs", witness(env, wg, ch, &entry, request.clone(), json!({"sig": sig.to_string()})));
            } else {
                // per-clause antecedent counters
                r.count("rule.htlc.ok_checked");
                r.count("rule.fee.ok_checked");
                r.count(if ch.setup.is_outbound { "rule.epsilon.ok_checked.counterparty_side" } else { "rule.epsilon.ok_checked.holder_side" });
                if cands[bi].to_holder > 0 {
                    r.count("rule.script.ok_with_holder_output");
                    r.count(&format!("rule.script.ok_kind.{}", lab.script_kind));
                    if ch.setup.holder_shutdown_script.is_some() {
                        r.count("rule.upfront.ok_checked");
                    }
                } else {
                    r.count("rule.script.ok_without_holder_output");
                }
                if !evals[bi].is_empty() {
                    let all: Vec<Value> = cands.iter().zip(evals.iter()).map(|(c, e)| json!({"assignment": c.json(), "failed_clauses": e})).collect();
                    r.violation(evals[bi][0], witness(env, wg, ch, &entry, request.clone(), json!({"sig": sig.to_string(), "assignments": all})));
                }
                // the signature must be over the canonical closing tx spending the funding outpoint
                let canon = canonical_closing_tx(ch.setup.funding_outpoint, &cands[bi].outs());
                let ldk = ClosingTransaction::new(
                    cands[bi].to_holder,
                    cands[bi].to_cp,
                    cands[bi].holder_script.clone().unwrap_or_default(),
                    cands[bi].cp_script.clone().unwrap_or_default(),
                    ch.setup.funding_outpoint,
                );
                if *ldk.trust().built_transaction() != canon {
                    r.inconclusive("hand-built canonical closing tx differs from LDK's ClosingTransaction");
                }
                r.count("rule.signature.checked");
                if via.is_some() {
                    r.count("rule.signature.checked_on_handler_reply");
                }
                // a closing signature is SIGHASH_ALL; the handler's reply says which type it goes with
                if reply_sighash.map(|b| b != EcdsaSighashType::All as u8).unwrap_or(false) {
                    r.violation("c07:signature-not-over-canonical-closing-tx", witness(env, wg, ch, &entry, request.clone(),
                        json!({"sig": sig.to_string(), "sighash_type_in_reply": reply_sighash, "canonical_tx": bitcoin::consensus::encode::serialize_hex(&canon)})));
                } else if !sig_over(secp, ch, &canon, &sig) {
                    r.violation("c07:signature-not-over-canonical-closing-tx", witness(env, wg, ch, &entry, request.clone(),
                        json!({"sig": sig.to_string(), "canonical_tx": bitcoin::consensus::encode::serialize_hex(&canon)})));
                } else {
                    r.count("rule.signature.verified");
                }
                if noncanonical {
                    r.violation("c07:signed-noncanonical-closing-tx", witness(env, wg, ch, &entry, request.clone(),
                        json!({"sig": sig.to_string(), "canonical_tx": bitcoin::consensus::encode::serialize_hex(&canon)})));
                }
            }
            if via.is_some() {
                r.count("rule.closed.checked_after_handler_request");
            }
            check_closed(world, wg, ch, rng, env, &entry, &request, r)
        }
    }
}

// ---------------------------------------------------------------------------------------------
// shard workload

fn drift_check(world: &World, ch: &ChanGhost, r: &mut Report) -> bool {
    let got = run_chan(world, &ch.id, |chan| {
        let e = &chan.enforcement_state;
        Ok((e.next_holder_commit_num, e.next_counterparty_commit_num, e.next_counterparty_revoke_num))
    });
    match got {
        Ok(t) if t == (ch.next_holder, ch.next_cp, ch.next_cp_revoke) => true,
        Ok(t) => {
            r.inconclusive(&format!("ghost counters {:?} differ from the channel's {:?}", (ch.next_holder, ch.next_cp, ch.next_cp_revoke), t));
            false
        }
        Err(_) => false,
    }
}

fn shard_body(cli: &Cli, shard: usize, r: &mut Report, worlds: u64, channels: u64, attempts: u64) {
    let secp = Secp256k1::new();
    let mut rng = Rng::new(cli.seed.wrapping_mul(1_000_003).wrapping_add(shard as u64).wrapping_add(0xC07));
    for wi in 0..worlds {
        let big = (wi + shard as u64) % 8 == 3;
        let (mut world, mut wg) = make_world(&mut rng, &secp, big);
        r.count(if big { "world.large_channel_policy" } else { "world.default_channel_size_policy" });
        // some initial allowlist
        for _ in 0..rng.range(0, 3) {
            random_allowlist_op(&world, &mut wg, &mut rng, r);
        }
        'chan: for ci in 0..channels {
            let env = Env { secp: &secp, seed: cli.seed, shard, world_ix: wi, chan_ix: ci };
            let mut ch = match open_channel(&world, &mut wg, &mut rng, &secp, ci + 1, big, r) {
                Some(c) => c,
                None => continue,
            };
            if !advance_channel(&mut world, &mut ch, &wg, &mut rng, &secp, r) {
                break 'chan;
            }
            if !drift_check(&world, &ch, r) {
                continue;
            }
            let before_any = rng.chance(1, 25);
            let n_att = if before_any { 3 } else { attempts };
            for k in 0..n_att {
                if !close_attempt(&mut world, &mut wg, &mut ch, &mut rng, &env, r) {
                    break 'chan;
                }
                // histories: the pair of commitments changes between closing attempts
                if k == n_att / 2 && !ch.closed && rng.chance(1, 2) {
                    let nf = nf_with_skew(ch.base_nf, 0);
                    if let Some(c) = mk_content(&mut rng, &ch, &wg, nf, vec![], vec![]) {
                        if ch.holder_pending.is_some() {
                            // make the pending one current first (it is replaced by re-validation)
                        }
                        if !holder_update(&mut world, &mut ch, &secp, c.clone(), true, r) {
                            break 'chan;
                        }
                        if let Some(c2) = mk_content(&mut rng, &ch, &wg, nf, vec![], vec![]) {
                            if !cp_update(&mut world, &mut ch, &secp, c2, r) {
                                break 'chan;
                            }
                        }
                        ch.state_class = "resolved-to-clean-equal";
                        r.count("state.resolved-to-clean-equal");
                    }
                }
                if k % 9 == 8 && rng.chance(1, 6) {
                    if world.restart().is_err() {
                        r.inconclusive("restart failed");
                        break 'chan;
                    }
                    r.count("restart.between_attempts");
                }
            }
            if ch.closed {
                r.count("channel.closed_by_some_request");
            } else {
                r.count("channel.never_closed");
            }
        }
    }
}

fn main() {
    let cli = Cli::parse("C07");
    report::install_quiet_panic_hook();
    let start = Instant::now();
    let quick = cli.tier.is_quick();
    let shards = if quick { 16 } else { 64 };
    let (worlds, channels, attempts) = if quick { (10, 5, 26) } else { (30, 6, 32) };
    let mut report = run_sharded("C07", cli.threads, shards, |i, r| {
        shard_body(&cli, i, r, cli.scaled(worlds), channels, attempts);
    });
    // every rule's antecedent must have fired, else the run says nothing about it
    report.require("close.p1.ok", 150);
    report.require("close.p2.ok", 150);
    report.require("close.p1.refused", 150);
    report.require("close.p2.refused", 150);
    // the same through the protocol handler (h1 = SignMutualCloseTx, h2 = SignMutualCloseTx2)
    report.require("close.h1.ok", 150);
    report.require("close.h2.ok", 150);
    report.require("close.h1.refused", 150);
    report.require("close.h2.refused", 150);
    report.require("handler.SignMutualCloseTx.ok", 150);
    report.require("handler.SignMutualCloseTx2.ok", 150);
    report.require("handler.SignMutualCloseTx.refused", 150);
    report.require("handler.SignMutualCloseTx2.refused", 150);
    report.require("handler.protocol_version.4", 100);
    report.require("handler.protocol_version.5", 100);
    report.require("handler.protocol_version.6", 100);
    report.require("handler.wire.SignMutualCloseTx.output_path_as.bip32-derivation", 100);
    report.require("handler.wire.SignMutualCloseTx.output_path_as.tap-key-origin", 100);
    report.require("handler.wire.SignMutualCloseTx.output_path_as.nothing", 100);
    report.require("handler.wire.SignMutualCloseTx2.local_script.empty", 20);
    report.require("handler.wire.SignMutualCloseTx2.remote_script.empty", 20);
    report.require("handler.wire.SignMutualCloseTx2.path_hint.empty", 100);
    report.require("handler.wire.SignMutualCloseTx2.path_hint.present", 100);
    report.require("rule.signature.checked_on_handler_reply", 300);
    report.require("rule.closed.checked_after_handler_request", 300);
    report.require("storage_fault.handler_request_failed_at_the_store_and_was_retried", 20);
    report.require("antecedent.fitting_path_on_the_other_output.handler", 50);
    report.require("antecedent.attempt_with_pending_htlc", 100);
    report.require("antecedent.forbidden.holder-output-to-unknown-script", 50);
    report.require("antecedent.forbidden.upfront-shutdown-script-ignored", 20);
    report.require("antecedent.forbidden.counterparty-value-outside-epsilon", 30);
    report.require("antecedent.forbidden.holder-underpaid-beyond-epsilon", 15);
    report.require("antecedent.forbidden.fee-rate-above-policy-max", 30);
    report.require("antecedent.forbidden.fee-rate-below-policy-min", 30);
    report.require("rule.epsilon.ok_checked.holder_side", 50);
    report.require("rule.epsilon.ok_checked.counterparty_side", 50);
    report.require("rule.script.ok_with_holder_output", 100);
    report.require("rule.upfront.ok_checked", 20);
    report.require("rule.signature.checked", 300);
    report.require("rule.closed.flag_checked", 300);
    report.require("rule.closed.persisted_checked", 300);
    report.require("rule.closed.probe_refused", 40);
    report.require("rule.closed.restart_checked", 20);
    report.require("update.holder.became_current", 100);
    report.require("update.cp.signed", 100);
    finish(
        report,
        FinishSpec {
            cli: &cli,
            level: "exploration",
            rule: "channels (both directions, upfront shutdown script none/wallet/allowlisted/xpub-child, StaticRemoteKey and AnchorsZeroFeeHtlc, policies with epsilon 0..40000 and several fee ranges) advanced by real counter-signed holder commitments + revocations and signed counterparty commitments into pairs of current commitments (equal, within eps, apart <=2eps, apart >2eps, HTLCs in either/both, HTLC only in a not-yet-current one), allowlist edited by add/remove/set; closing requests through sign_mutual_close_tx and sign_mutual_close_tx_phase2, half of them straight to the channel and half as wire messages SignMutualCloseTx (tx + PSBT whose outputs carry the paths as bip32 derivation / tap key origin / nothing, + remote funding key) and SignMutualCloseTx2 (empty bytes = no script, u32 list = path) to a ChannelHandler of protocol version 4, 5 or 6, the signature taken from SignTxReply (its sighash type must be ALL). Oracle on Ok (the same for all four entries): exists assignment (explicit for phase 2) with no HTLC in either ghost-current commitment, 0 <= fee with rate in [min-1,max+1] on own weight bounds, non-funder value within eps of both ghost commitments, holder script wallet-derivable at path or allowlisted now and equal to upfront script, signature verifies under the funding key over the hand-built canonical closing tx; afterwards channel_closed in memory and in the persisted ChannelEntry, a new counter-signed holder commitment refused, also after restart. distinct = (entry point p1/p2/h1/h2, direction, upfront fixed?, class of the pair of current commitments, holder destination kind, reference verdict = first failed clause or allowed, closed before?, outcome)",
            assumptions: vec![
                "LDK chan_utils (commitment/closing tx construction for the workload and the cross-check), rust-bitcoin (sighash, bip32, addresses) and libsecp256k1 are trusted".into(),
                "ghost-current commitments = last holder commitment that became current (activate/revoke Ok) and last counterparty commitment signed; a validated but not yet revoked-into holder commitment does not count".into(),
                "the wallet is identified by the node's account xpub (get_account_extended_pubkey); allowlist ghost is updated only on acknowledged add/remove/set with well-formed entries".into(),
                "fee-rate clause is lenient: flags only rate computed on the heaviest weight > max+1 or on the lightest weight < min-1".into(),
                "panics of the signer are counted and reported in observed_sets.panics, not judged by this property".into(),
                "a wire request means what its fields say: output i of SignMutualCloseTx.tx has the path found on output i of the PSBT (nothing = empty path; the PSBT's own unsigned tx equals tx except when the number of paths is wrong on purpose), SignMutualCloseTx.remote_funding_key has no meaning for the property; a PSBT output with two key sources or tap leaf hashes makes the handler give up (unimplemented!), counted as handler.SignMutualCloseTx.panic".into(),
            ],
            start,
            extra_coverage: Default::default(),
        },
    );
}
